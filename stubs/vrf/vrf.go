// Signature stub of pkg/Rust-VRF/vrf-func-ffi/src (absent submodule) — type checking only.
// Every function here is EXTERNAL to govc (no body is ever verified or inlined).
package vrf

type Verifier struct{ opaque uintptr }

type Handler struct{ opaque uintptr }

type VerifyItem struct {
	Context   []byte
	Message   []byte
	Signature []byte
}

type VerifyResult struct {
	Output []byte
	Error  error
}

func NewVerifier(ring []byte, ringSize uint) (*Verifier, error)
func (v *Verifier) GetCommitment() ([]byte, error)
func (v *Verifier) RingVerify(input, aux, proof []byte) ([]byte, error)
func (v *Verifier) RingVerifyBatch(items []VerifyItem) ([]VerifyResult, error)
func (v *Verifier) Free()
func NewHandler(ring, secret []byte, ringSize, proverIdx uint) (*Handler, error)
func (h *Handler) Free()
func (h *Handler) IETFSign(context, message []byte) ([]byte, error)
func (h *Handler) VRFIetfOutput(sig []byte) ([]byte, error)
func (h *Handler) RingSign(context, message []byte) ([]byte, error)
func GetPublicKeyFromSecret(secret []byte) ([]byte, error)
func IETFSign(secret, context, message []byte) ([]byte, error)
func IETFVerify(context, message, signature, publicKey []byte) ([]byte, error)
func VRFIetfOutput(sig []byte) ([]byte, error)
