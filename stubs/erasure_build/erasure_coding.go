// Pure-Go signature stub replacing the cgo file of pkg/erasure_coding — type checking only; EXTERNAL to govc.
package erasurecoding

type Shard struct {
	Index int
	Data  [2]byte
}

func EncodeDataShards(data []byte, dataShard, parityShard int) ([][]byte, error) { panic("govc stub: external function not available offline") }
func EncodeData(data []byte, dataShards, parityShards int) ([]byte, error) { panic("govc stub: external function not available offline") }
func DecodeShards(flatten []byte, indices []int, dataShards, parityShards, shardSize int) ([]byte, error) { panic("govc stub: external function not available offline") }
