// Offline pure-Go stub for pkg/erasure_coding (used only via go test -overlay).
// NOT real Reed-Solomon: deterministic placeholder so dependants compile and run.
package erasurecoding

import (
	"errors"
	"fmt"
)

func EncodeDataShards(data []byte, dataShard, parityShard int) ([][]byte, error) {
	flat, err := EncodeData(data, dataShard, parityShard)
	if err != nil {
		return nil, err
	}
	numShards := dataShard + parityShard
	if len(flat)%numShards != 0 {
		return nil, fmt.Errorf("unexpected output size %d is not divisible by %d shards", len(flat), numShards)
	}
	shardSize := len(flat) / numShards
	shards := make([][]byte, numShards)
	for i := 0; i < numShards; i++ {
		shards[i] = append([]byte(nil), flat[i*shardSize:(i+1)*shardSize]...)
	}
	return shards, nil
}

func EncodeData(data []byte, dataShards, parityShards int) ([]byte, error) {
	if len(data) == 0 {
		return nil, errors.New("input data is empty")
	}
	shardSize := (len(data) + dataShards - 1) / dataShards
	if shardSize%2 == 1 {
		shardSize++
	}
	n := dataShards + parityShards
	out := make([]byte, n*shardSize)
	copy(out, data)
	// placeholder "parity": xor-fold of data shards, salted by shard index
	for p := dataShards; p < n; p++ {
		for k := 0; k < shardSize; k++ {
			var b byte
			for d := 0; d < dataShards; d++ {
				b ^= out[d*shardSize+k] + byte(d*p)
			}
			out[p*shardSize+k] = b
		}
	}
	return out, nil
}

type Shard struct {
	Index int
	Data  [2]byte
}

func DecodeShards(flatten []byte, indices []int, dataShards, parityShards, shardSize int) ([]byte, error) {
	return nil, errors.New("erasure coding stub: decode not available offline")
}
