// Package vrf is an OFFLINE TEST STAND-IN for pkg/Rust-VRF/vrf-func-ffi/src
// (a git submodule with a cgo/Rust backend that is not available in the
// sandbox). It is only ever injected with `go test -overlay`; it is not part of
// the repository build.
//
// It is deterministic and has no cryptographic meaning:
//   - ring VRF output (ticket identifier) = SHA-256("ring" || signature)
//   - a ring signature whose first byte is 0xFF is treated as an invalid proof
//   - IETF signature = 32-byte output || 64 bytes padding (96 bytes),
//     output = SHA-256(pk(sk) || context)
package vrf

import (
	"crypto/sha256"
	"errors"
)

type VerifyItem struct {
	Context   []byte
	Message   []byte
	Signature []byte
}

type VerifyResult struct {
	Output []byte
	Error  error
}

type Verifier struct {
	ring []byte
	size uint
}

func NewVerifier(ring []byte, ringSize uint) (*Verifier, error) {
	return &Verifier{ring: append([]byte(nil), ring...), size: ringSize}, nil
}

func (v *Verifier) Free() {}

func (v *Verifier) GetCommitment() ([]byte, error) {
	out := make([]byte, 0, 144)
	seed := sha256.Sum256(append([]byte("commitment"), v.ring...))
	for len(out) < 144 {
		out = append(out, seed[:]...)
		seed = sha256.Sum256(seed[:])
	}
	return out[:144], nil
}

func ringOutput(signature []byte) ([]byte, error) {
	if len(signature) > 0 && signature[0] == 0xFF {
		return nil, errors.New("vrf stub: bad ring proof")
	}
	h := sha256.Sum256(append([]byte("ring"), signature...))
	return h[:], nil
}

func (v *Verifier) RingVerify(input, aux, signature []byte) ([]byte, error) {
	return ringOutput(signature)
}

func (v *Verifier) RingVerifyBatch(items []VerifyItem) ([]VerifyResult, error) {
	results := make([]VerifyResult, len(items))
	for i, it := range items {
		out, err := ringOutput(it.Signature)
		results[i] = VerifyResult{Output: out, Error: err}
	}
	return results, nil
}

type Handler struct {
	sk []byte
}

func NewHandler(ring, sk []byte, ringSize, proverIdx uint) (*Handler, error) {
	return &Handler{sk: append([]byte(nil), sk...)}, nil
}

func (h *Handler) Free() {}

func (h *Handler) VRFIetfOutput(signature []byte) ([]byte, error) {
	return VRFIetfOutput(signature)
}

func (h *Handler) IETFSign(context, message []byte) ([]byte, error) {
	return IETFSign(h.sk, context, message)
}

func GetPublicKeyFromSecret(sk []byte) ([]byte, error) {
	h := sha256.Sum256(append([]byte("pk"), sk...))
	return h[:], nil
}

func ietfOutput(pk, context []byte) []byte {
	h := sha256.Sum256(append(append([]byte("ietf"), pk...), context...))
	return h[:]
}

func IETFSign(sk, context, message []byte) ([]byte, error) {
	pk, _ := GetPublicKeyFromSecret(sk)
	sig := make([]byte, 96)
	copy(sig, ietfOutput(pk, context))
	m := sha256.Sum256(append(append([]byte("msg"), pk...), message...))
	copy(sig[32:], m[:])
	return sig, nil
}

func IETFVerify(context, message, signature, signerKey []byte) ([]byte, error) {
	if len(signature) != 96 {
		return nil, errors.New("vrf stub: bad signature length")
	}
	want := ietfOutput(signerKey, context)
	m := sha256.Sum256(append(append([]byte("msg"), signerKey...), message...))
	for i := 0; i < 32; i++ {
		if signature[i] != want[i] || signature[32+i] != m[i] {
			return nil, errors.New("vrf stub: bad ietf signature")
		}
	}
	return want, nil
}

func VRFIetfOutput(signature []byte) ([]byte, error) {
	if len(signature) < 32 {
		return nil, errors.New("vrf stub: short signature")
	}
	return append([]byte(nil), signature[:32]...), nil
}
