// Signature stub of pkg/Rust-VRF/vrf-func-ffi/src (absent submodule) — compilable stub for replay builds.
// Every function here is EXTERNAL to govc (no body is ever verified or inlined).
package vrf

type Verifier struct{ opaque uintptr }

type Handler struct{ opaque uintptr }

type VerifyItem struct {
	Context   []byte
	Message   []byte
	Signature []byte
}

type VerifyResult struct {
	Output []byte
	Error  error
}

func NewVerifier(ring []byte, ringSize uint) (*Verifier, error) { panic("govc stub: external function not available offline") }
func (v *Verifier) GetCommitment() ([]byte, error) { panic("govc stub: external function not available offline") }
func (v *Verifier) RingVerify(input, aux, proof []byte) ([]byte, error) { panic("govc stub: external function not available offline") }
func (v *Verifier) RingVerifyBatch(items []VerifyItem) ([]VerifyResult, error) { panic("govc stub: external function not available offline") }
func (v *Verifier) Free() { panic("govc stub: external function not available offline") }
func NewHandler(ring, secret []byte, ringSize, proverIdx uint) (*Handler, error) { panic("govc stub: external function not available offline") }
func (h *Handler) Free() { panic("govc stub: external function not available offline") }
func (h *Handler) IETFSign(context, message []byte) ([]byte, error) { panic("govc stub: external function not available offline") }
func (h *Handler) VRFIetfOutput(sig []byte) ([]byte, error) { panic("govc stub: external function not available offline") }
func (h *Handler) RingSign(context, message []byte) ([]byte, error) { panic("govc stub: external function not available offline") }
func GetPublicKeyFromSecret(secret []byte) ([]byte, error) { panic("govc stub: external function not available offline") }
func IETFSign(secret, context, message []byte) ([]byte, error) { panic("govc stub: external function not available offline") }
func IETFVerify(context, message, signature, publicKey []byte) ([]byte, error) { panic("govc stub: external function not available offline") }
func VRFIetfOutput(sig []byte) ([]byte, error) { panic("govc stub: external function not available offline") }
