package PVM

import (
	"testing"

	"github.com/New-JAMneration/JAM-Protocol/internal/types"
)

// GP B.6/B.7: a host call whose input range is unreadable panics and leaves the registers as they were, e.g. yield:
// (eps', omega7', x_y') = (panic, omega7, x_y) if h = nabla. The host calls wrote OOB into omega7 before panicking.
func TestHostCallPanicLeavesRegistersUntouched(t *testing.T) {
	calls := map[string]Omega{"yield": yield, "machine": machine, "provide": provide}
	for name, call := range calls {
		regs := Registers{}
		for i := range regs {
			regs[i] = 0x1000 // page 1 is not mapped: every range starting here is unreadable
		}
		regs[8], regs[9] = 0x1000, 64
		before := regs
		gas := Gas(1000)
		mem := Memory{Pages: map[uint32]*Page{}}
		kv := types.StateKeyVals{}
		in := OmegaInput{VM: &VMState{Registers: &regs, Memory: &mem, Gas: &gas}}
		in.Addition.ResultContextX.StorageKeyVal = &kv
		in.Addition.ResultContextX.ServiceBlobs = map[types.OpaqueHash]types.ServiceBlob{}
		in.Addition.IntegratedPVMMap = IntegratedPVMMap{}
		out := call(in)
		if out.ExitReason != ExitPanic {
			t.Errorf("%s: exit %v, expected a panic for an unreadable input range", name, out.ExitReason)
			continue
		}
		if regs != before {
			t.Errorf("%s: panicked but changed the registers: omega7 %#x -> %#x", name, before[7], regs[7])
		}
	}
}
