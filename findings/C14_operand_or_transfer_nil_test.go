package types

import (
	"bytes"
	"testing"
)

// OperandOrDeferredTransfer.Decode decoded into o.Operand / o.DeferredTransfer without allocating them: on a fresh
// value both are nil and the first field store is a nil-pointer dereference (run-time panic) for every input that
// starts with a valid discriminator.
func TestOperandOrDeferredTransferDecodeFresh(t *testing.T) {
	defer func() {
		if r := recover(); r != nil {
			t.Fatalf("panic: %v", r)
		}
	}()
	var o OperandOrDeferredTransfer
	err := o.Decode(&Decoder{buf: bytes.NewReader(make([]byte, 200))})
	if err == nil && o.Operand == nil {
		t.Fatal("accepted an operand but decoded none")
	}
}
