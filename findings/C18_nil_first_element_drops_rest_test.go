package merkle_tree

import (
	"bytes"
	"testing"

	"github.com/New-JAMneration/JAM-Protocol/internal/types"
	"github.com/New-JAMneration/JAM-Protocol/internal/utilities/hash"
)

// C18: "the roots ... change whenever any single element changes". With a nil FIRST element and at least one more
// element, N returned the zero hash without looking at the rest of the sequence (obligation N#post:nodes: a sequence of
// n >= 2 items is folded with n-1 node hashes).
func TestFindingC18NilFirstElement(t *testing.T) {
	a := []types.ByteSequence{nil, types.ByteSequence("a"), types.ByteSequence("b")}
	b := []types.ByteSequence{nil, types.ByteSequence("c"), types.ByteSequence("d")}
	ra, rb := N(a, hash.Blake2bHash), N(b, hash.Blake2bHash)
	if bytes.Equal(ra, rb) {
		t.Fatalf("N([nil,a,b]) == N([nil,c,d]) == %x: the root ignores every element after a nil first element", ra)
	}
	if Mb(a, hash.Blake2bHash) == Mb(b, hash.Blake2bHash) {
		t.Fatalf("Mb ignores every element after a nil first element")
	}
}
