package fuzz

import (
	"bytes"
	"runtime"
	"testing"
)

func noPanic(t *testing.T, what string, f func() error) {
	t.Helper()
	defer func() {
		if r := recover(); r != nil {
			t.Errorf("%s: panic: %v", what, r)
		}
	}()
	_ = f()
}

// Frames a peer (or the fuzzer) can send: every one must come back as a value or an error.
func TestFuzzFramesNoPanic(t *testing.T) {
	noPanic(t, "ErrorMessage, length 2^64-1", func() error {
		return new(ErrorMessage).UnmarshalBinary([]byte{0xff, 0xff, 0xff, 0xff, 0xff, 0xff, 0xff, 0xff, 0xff})
	})
	noPanic(t, "Features, 2 octets", func() error { return new(Features).UnmarshalBinary([]byte{1, 2}) })
	noPanic(t, "PeerInfo, app name length 2^64-1", func() error {
		in := append(make([]byte, 1+4+3+3), 0xff, 0xff, 0xff, 0xff, 0xff, 0xff, 0xff, 0xff, 0xff)
		return new(PeerInfo).UnmarshalBinary(in)
	})
}

// A five-octet frame must not cost gigabytes: the announced length 0 wrapped to 2^32-1 and was allocated up front.
func TestFuzzFrameAllocationBounded(t *testing.T) {
	for _, in := range [][]byte{{0, 0, 0, 0, 3}, {0xff, 0xff, 0xff, 0x7f, 3}} {
		var before, after runtime.MemStats
		runtime.ReadMemStats(&before)
		_, err := new(Message).ReadFrom(bytes.NewReader(in))
		runtime.ReadMemStats(&after)
		if err == nil {
			t.Errorf("frame %x accepted", in)
		}
		if d := after.TotalAlloc - before.TotalAlloc; d > 1<<20 {
			t.Errorf("frame %x (%d octets) made ReadFrom allocate %d bytes", in, len(in), d)
		}
	}
}
