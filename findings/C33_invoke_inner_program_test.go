package PVM

import (
	"encoding/binary"
	"testing"
)

// invokeInner creates an inner machine from blob with the refine host calls `machine` and `invoke` and returns
// what invoke reports: omega7, omega8, the gas and registers written back to outer memory, and the stored pc.
func invokeInner(t *testing.T, blob []byte, innerMem Memory, gasIn uint64) (w7, w8, gasOut uint64, regsOut [13]uint64, pc ProgramCounter) {
	t.Helper()
	const progAddr = uint64(32 * ZP)
	const ioAddr = uint64(33 * ZP)
	page := make([]byte, ZP)
	copy(page, blob)
	io := make([]byte, ZP)
	binary.LittleEndian.PutUint64(io, gasIn)
	outer := &Memory{Pages: map[uint32]*Page{
		uint32(progAddr / ZP): {Value: page, Access: MemoryReadWrite},
		uint32(ioAddr / ZP):   {Value: io, Access: MemoryReadWrite},
	}}
	regs := Registers{}
	gas := Gas(1_000_000)
	vm := &VMState{Registers: &regs, Memory: outer, Gas: &gas}
	addition := HostCallArgs{}
	addition.IntegratedPVMMap = IntegratedPVMMap{}
	regs[7], regs[8], regs[9] = progAddr, uint64(len(blob)), 0
	out := machine(OmegaInput{VM: vm, Addition: addition})
	if out.ExitReason != ExitContinue || regs[7] != 0 {
		t.Fatalf("machine: exit %v omega7 %d", out.ExitReason, regs[7])
	}
	addition = out.Addition
	m := addition.IntegratedPVMMap[0]
	m.Memory = innerMem
	addition.IntegratedPVMMap[0] = m
	regs[7], regs[8] = 0, ioAddr
	out = invoke(OmegaInput{VM: vm, Addition: addition})
	if out.ExitReason != ExitContinue {
		t.Fatalf("invoke: exit %v", out.ExitReason)
	}
	io = outer.Pages[uint32(ioAddr/ZP)].Value
	gasOut = binary.LittleEndian.Uint64(io)
	for i := range regsOut {
		regsOut[i] = binary.LittleEndian.Uint64(io[8+8*i:])
	}
	return regs[7], regs[8], gasOut, regsOut, out.Addition.IntegratedPVMMap[0].PC
}

// GP B.8 invoke: the machine runs deblob(p). The stored blob was executed as if it were the code itself (and
// without any bitmask): its header octets were decoded as instructions.
func TestInvokeRunsTheDeblobbedProgram(t *testing.T) {
	// code: load_imm r1, 7 ; trap      bitmask: instruction starts at 0 and 3
	blob := []byte{0, 0, 4, 51, 1, 7, 0, 0x09}
	if _, er := DeBlobProgramCode(blob); er != ExitContinue {
		t.Fatalf("test blob must be valid, got %v", er)
	}
	w7, _, gasOut, regs, _ := invokeInner(t, blob, Memory{Pages: map[uint32]*Page{}}, 100)
	if w7 != INNERPANIC {
		t.Errorf("omega7 = %d, want INNERPANIC (the program ends in trap)", w7)
	}
	if regs[1] != 7 {
		t.Errorf("inner r1 = %d after `load_imm r1, 7`, want 7", regs[1])
	}
	if gasOut != 98 {
		t.Errorf("inner gas = %d, want 98 (two instructions executed)", gasOut)
	}
}

// GP A.7: a page fault does not complete the instruction: the counter stays on it (so that the machine can be
// resumed there once the page is made accessible). The single-step engine advanced it past the instruction.
func TestInvokePageFaultKeepsCounter(t *testing.T) {
	// code: fallthrough ; load_u8 r1, [0x20000] ; trap     starts at 0, 1, 6
	blob := []byte{0, 0, 7, 1, 52, 1, 0x00, 0x00, 0x02, 0, 0x43}
	if _, er := DeBlobProgramCode(blob); er != ExitContinue {
		t.Fatalf("test blob must be valid, got %v", er)
	}
	w7, w8, _, _, pc := invokeInner(t, blob, Memory{Pages: map[uint32]*Page{}}, 100)
	if w7 != INNERFAULT || w8 != 0x20000 {
		t.Fatalf("omega7, omega8 = %d, %#x; want INNERFAULT, 0x20000", w7, w8)
	}
	if pc != 1 {
		t.Errorf("stored pc after the fault = %d, want 1 (the faulting load)", pc)
	}
}

// GP A.4: the code is followed by zeros. An instruction whose operands run past the end of the code must decode
// them as zeros; the single-step engine indexed past the end and panicked (Go run-time panic = node crash).
func TestSingleStepOperandsPastEnd(t *testing.T) {
	for _, code := range [][]byte{{20}, {51}, {200}, {80, 1}, {30}} {
		prog := &Program{InstructionData: ProgramCode(code), Bitmasks: make(Bitmask, len(code))}
		prog.Bitmasks[0] = 1
		mem := &Memory{Pages: map[uint32]*Page{}}
		func() {
			defer func() {
				if r := recover(); r != nil {
					t.Errorf("code %v: run-time panic: %v", code, r)
				}
			}()
			h := NewHost(prog, Registers{}, mem, Gas(10), HostCallArgs{}, nil)
			h.Interpreter.SingleStepInvoke(0)
		}()
	}
}

// machine followed by pages on the new machine: `machine` stored a Memory whose page table was a nil map, so the
// first `pages` call on it panicked with "assignment to entry in nil map" (a two-call sequence crashing the node).
func TestMachineThenPages(t *testing.T) {
	const progAddr = uint64(32 * ZP)
	blob := []byte{0, 0, 1, 0, 1}
	page := make([]byte, ZP)
	copy(page, blob)
	outer := &Memory{Pages: map[uint32]*Page{uint32(progAddr / ZP): {Value: page, Access: MemoryReadWrite}}}
	regs := Registers{}
	gas := Gas(1_000_000)
	vm := &VMState{Registers: &regs, Memory: outer, Gas: &gas}
	addition := HostCallArgs{}
	addition.IntegratedPVMMap = IntegratedPVMMap{}
	regs[7], regs[8], regs[9] = progAddr, uint64(len(blob)), 0
	out := machine(OmegaInput{VM: vm, Addition: addition})
	if out.ExitReason != ExitContinue || regs[7] != 0 {
		t.Fatalf("machine: exit %v omega7 %d", out.ExitReason, regs[7])
	}
	defer func() {
		if r := recover(); r != nil {
			t.Fatalf("pages on a fresh machine: run-time panic: %v", r)
		}
	}()
	regs[7], regs[8], regs[9], regs[10] = 0, 16, 1, 2 // machine 0, page 16, one page, read-write zeroed
	out = pages(OmegaInput{VM: vm, Addition: out.Addition})
	if regs[7] != OK {
		t.Fatalf("pages: omega7 = %d, want OK", regs[7])
	}
	if pg := out.Addition.IntegratedPVMMap[0].Memory.Pages[16]; pg == nil || pg.Access != MemoryReadWrite {
		t.Fatalf("page 16 of the inner machine not mapped read-write")
	}
}
