package merkle_tree

import (
	"bytes"
	"fmt"
	"testing"

	"github.com/New-JAMneration/JAM-Protocol/internal/types"
	"github.com/New-JAMneration/JAM-Protocol/internal/utilities/hash"
)

// GP E.1: folding the trace T(v, i) from element i reproduces N(v). T split the sequence at floor(|v|/2) while N splits
// at ceil(|v|/2): for every odd length >= 3 the trace belonged to a different tree than the root.
func TestTraceFoldsToRoot(t *testing.T) {
	for n := 1; n <= 9; n++ {
		v := make([]types.ByteSequence, n)
		for k := range v {
			v[k] = types.ByteSequence(fmt.Sprintf("blob-%d-of-%d-padding-to-32-bytes!!", k, n))[:32]
		}
		root := N(v, hash.Blake2bHash)
		for i := 0; i < n; i++ {
			// fold: walk the same splits as N from the top, combining on the way back
			var fold func(w []types.ByteSequence, idx int, trace []types.ByteSequence) types.ByteSequence
			fold = func(w []types.ByteSequence, idx int, trace []types.ByteSequence) types.ByteSequence {
				if len(w) == 1 {
					return w[0]
				}
				mid := (len(w) + 1) / 2
				var l, r types.ByteSequence
				if idx < mid {
					l, r = fold(w[:mid], idx, trace[1:]), trace[0]
				} else {
					l, r = trace[0], fold(w[mid:], idx-mid, trace[1:])
				}
				h := hash.Blake2bHash(append(append([]byte("node"), l...), r...))
				return h[:]
			}
			tr := T(v, types.U32(i), hash.Blake2bHash)
			func() {
				defer func() {
					if r := recover(); r != nil {
						t.Errorf("n=%d i=%d: trace of length %d does not match the tree shape (%v)", n, i, len(tr), r)
					}
				}()
				if got := fold(v, i, tr); !bytes.Equal(got, root) {
					t.Errorf("n=%d i=%d: folding the trace gives %x, root is %x", n, i, got[:4], root[:4])
				}
			}()
		}
	}
}
