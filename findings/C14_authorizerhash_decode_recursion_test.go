package types

import (
	"bytes"
	"testing"
)

// AuthorizerHash.Decode called itself on a fresh AuthorizerHash: every call, on any input, recursed until the
// runtime killed the process ("goroutine stack exceeds 1000000000-byte limit"; not recoverable).
func TestAuthorizerHashDecodeTerminates(t *testing.T) {
	var a AuthorizerHash
	in := make([]byte, 32)
	in[0] = 9
	if err := a.Decode(&Decoder{buf: bytes.NewReader(in)}); err != nil {
		t.Fatal(err)
	}
	if a[0] != 9 {
		t.Fatalf("decoded %x", a)
	}
}
