package types

import (
	"bytes"
	"testing"
)

// Decoding into a receiver that already holds a value must replace it: the bytes accepted are then exactly the
// encoding of the decoded value (C13). AuthPool/AuthQueue/AvailabilityAssignments appended to the old contents.
func TestDecodeReplacesReceiver(t *testing.T) {
	var h OpaqueHash
	h[0] = 7
	in := append([]byte{1}, h[:]...) // a pool with one entry
	var pool AuthPool
	for round := 1; round <= 2; round++ {
		d := &Decoder{buf: bytes.NewReader(in)}
		if err := pool.Decode(d); err != nil {
			t.Fatal(err)
		}
		if len(pool) != 1 {
			t.Fatalf("round %d: decoding %x gave a pool of %d entries, want 1", round, in, len(pool))
		}
	}
}
