package work_package

import (
	"testing"

	"github.com/New-JAMneration/JAM-Protocol/internal/types"
)

// GP (14.8): refine load (u, i, x, z, e) = (gas used, |imports|, |extrinsics|, sum of extrinsic lengths, exported
// segments). C stored the export count as x, the NUMBER of extrinsics as z, and the 16-bit truncated length sum as e.
func TestWorkDigestRefineLoad(t *testing.T) {
	item := types.WorkItem{
		Service:     7,
		ExportCount: 5,
		Payload:     types.ByteSequence("payload"),
		ImportSegments: []types.ImportSpec{{}, {}},
		Extrinsic:   []types.ExtrinsicSpec{{Len: 70000}, {Len: 11}, {Len: 3}},
	}
	d := C(item, types.WorkExecResult{}, 99)
	got := d.RefineLoad
	want := types.RefineLoad{GasUsed: 99, Imports: 2, ExtrinsicCount: 3, ExtrinsicSize: 70014, Exports: 5}
	if got != want {
		t.Fatalf("refine load = %+v, want %+v", got, want)
	}
}
