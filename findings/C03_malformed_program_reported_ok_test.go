package PVM

import (
	"testing"

	"github.com/New-JAMneration/JAM-Protocol/internal/types"
)

// GP (A.40): Psi_M returns (0, panic) when the standard program blob cannot be initialised (Y(p) = nothing).
// Psi_M reported that outcome as the value ExitPanic (type ExitReason), while R and every caller use PANIC
// (type ExitReasonType): `result.ReasonOrBytes == PANIC` is false for it (different dynamic types), so the refine
// invocation reported a malformed program as WorkExecResultOk with an empty output.
func TestMalformedProgramIsAPanicOutcome(t *testing.T) {
	r := Psi_M(StandardCodeFormat([]byte{0xff}), 0, 100, Argument{}, Omegas{}, HostCallArgs{})
	if r.ReasonOrBytes != PANIC {
		t.Errorf("Psi_M on a malformed blob: outcome %#v (%T) is not PANIC (%T)", r.ReasonOrBytes, r.ReasonOrBytes, PANIC)
	}
}

func TestRefineOfMalformedProgramPanics(t *testing.T) {
	var codeHash types.OpaqueHash
	codeHash[0] = 9
	blob := types.ByteSequence{0, 0xff} // empty metadata, then a one-octet "program" that is not a standard program blob
	acct := types.ServiceAccount{
		PreimageLookup: types.PreimagesMapEntry{codeHash: blob},
		LookupDict:     types.LookupMetaMapEntry{{Hash: codeHash, Length: types.U32(len(blob))}: types.TimeSlotSet{0}},
	}
	in := RefineInput{
		WorkPackage:     types.WorkPackage{Items: []types.WorkItem{{Service: 1, CodeHash: codeHash, RefineGasLimit: 1000}}},
		ServiceAccounts: types.ServiceAccountState{1: acct},
	}
	in.WorkPackage.Context.LookupAnchorSlot = 5
	out := RefineInvoke(in)
	if out.WorkResult != types.WorkExecResultPanic {
		t.Errorf("refine of a malformed program: result %v, want panic (%v)", out.WorkResult, types.WorkExecResultPanic)
	}
}
