package types

import (
	"bytes"
	"testing"
)

// With the full parameter set an availability bitfield is 43 octets. Bitfield.Decode used bytes.Reader.Read and
// ignored the count, so 10 octets were accepted as a bitfield (the missing 33 taken as zero): truncated input accepted.
func TestBitfieldTruncatedRejected(t *testing.T) {
	oc, ob := CoresCount, AvailBitfieldBytes
	CoresCount, AvailBitfieldBytes = 341, 43
	defer func() { CoresCount, AvailBitfieldBytes = oc, ob }()
	var bf Bitfield
	if err := bf.Decode(&Decoder{buf: bytes.NewReader(make([]byte, 10))}); err == nil {
		t.Fatalf("10 of 43 octets accepted as a bitfield of %d cores", len(bf))
	}
}
