package types

import (
	"bytes"
	"testing"
)

// TicketAttempt and WorkReport.CoreIndex are compact naturals that are VALUES. They were decoded with DecodeLength,
// which (since the C14 repair) rejects a natural larger than the number of unread octets: a ticket body whose attempt
// is 1 or 2 and which ends the input could no longer be decoded, although it is the encoding of a valid value.
func TestCompactValuesAreNotLengths(t *testing.T) {
	for attempt := 0; attempt < 3; attempt++ {
		tb := TicketBody{Attempt: TicketAttempt(attempt)}
		tb.ID[0] = 9
		e := &Encoder{buf: new(bytes.Buffer)}
		if err := tb.Encode(e); err != nil {
			t.Fatal(err)
		}
		var back TicketBody
		if err := back.Decode(&Decoder{buf: bytes.NewReader(e.buf.Bytes())}); err != nil {
			t.Errorf("attempt %d: decode(encode(ticket body)) failed: %v", attempt, err)
		} else if back != tb {
			t.Errorf("attempt %d: round trip gave %+v", attempt, back)
		}
	}
}
