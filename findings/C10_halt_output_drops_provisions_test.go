package PVM

import (
	"testing"

	"github.com/New-JAMneration/JAM-Protocol/internal/types"
)

// GP (B.13): C(g, o, (x, y)) = (x_u, x_t, x_y, g, x_p) for every o that is neither out-of-gas/panic nor a hash.
// An accumulate program that halts with an output that is not 32 octets long (or whose output range is unreadable:
// R returns []byte{}) must therefore still hand back the preimages it provided (x_p).
func TestHaltWithNon32OctetOutputKeepsProvisions(t *testing.T) {
	mk := func() AccumulateArgs {
		kvX, kvY := types.StateKeyVals{}, types.StateKeyVals{}
		x := ResultContext{ServiceBlobs: map[types.OpaqueHash]types.ServiceBlob{{1}: {ServiceID: 7, Blob: []byte("preimage")}}, StorageKeyVal: &kvX}
		y := ResultContext{ServiceBlobs: map[types.OpaqueHash]types.ServiceBlob{}, StorageKeyVal: &kvY}
		return AccumulateArgs{ResultContextX: x, ResultContextY: y}
	}
	for _, out := range []any{nil, []byte{}, []byte{1, 2, 3}, make([]byte, 32), make([]byte, 33)} {
		_, _, _, _, blobs, _ := C(10, out, mk())
		if len(blobs) != 1 {
			t.Errorf("halt with output %v: %d provided preimages returned, want 1", out, len(blobs))
		}
	}
}
