package service_account

import (
	"math/big"
	"testing"

	types "github.com/New-JAMneration/JAM-Protocol/internal/types"
)

// a_t = max(0, B_S + B_I*a_i + B_L*a_o - a_f) over the integers (GP 9.8). When B_S + B_I*a_i + B_L*a_o needs more
// than 64 bits the 64-bit sum wrapped: the witness below returned 0 although the threshold is a large positive number.
func TestThresholdBalanceIsComputedOverTheIntegers(t *testing.T) {
	cases := [][3]uint64{
		{0xddccccba, 0xfffffffbe6000060, 0x6bbdff9c90000009}, // sum >= 2^64, result fits 64 bits
		{0xffffffff, 0xffffffffffffffff, 0},                   // result >= 2^64: no balance can reach it
		{5, 1000, 2000},                                       // below the free allowance
		{5, 1000, 100},
	}
	for _, c := range cases {
		want := new(big.Int).SetUint64(uint64(types.BasicMinBalance))
		want.Add(want, new(big.Int).Mul(big.NewInt(int64(types.AdditionalMinBalancePerItem)), new(big.Int).SetUint64(c[0])))
		want.Add(want, new(big.Int).Mul(big.NewInt(int64(types.AdditionalMinBalancePerOctet)), new(big.Int).SetUint64(c[1])))
		want.Sub(want, new(big.Int).SetUint64(c[2]))
		if want.Sign() < 0 {
			want.SetInt64(0)
		}
		got := CalcThresholdBalance(types.U32(c[0]), types.U64(c[1]), types.U64(c[2]))
		if want.IsUint64() {
			if uint64(got) != want.Uint64() {
				t.Errorf("a_i=%#x a_o=%#x a_f=%#x: threshold %#x, want %#x", c[0], c[1], c[2], uint64(got), want.Uint64())
			}
		} else if uint64(got) != ^uint64(0) {
			t.Errorf("a_i=%#x a_o=%#x a_f=%#x: threshold %#x, but the true threshold %s exceeds every balance (want the largest value)", c[0], c[1], c[2], uint64(got), want)
		}
	}
}
