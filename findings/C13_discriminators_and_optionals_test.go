package types

import (
	"bytes"
	"testing"
)

// An optional or two-way variant is introduced by 0 or 1. Any other octet was accepted: as "present" by the
// optional decoders, and as "neither" (decoding nothing, returning nil) by TicketsOrKeys and
// OperandOrDeferredTransfer — so bytes that are not the encoding of any value were accepted (C13).
func TestDiscriminatorOutOfRangeRejected(t *testing.T) {
	var tk TicketsOrKeys
	if err := tk.Decode(&Decoder{buf: bytes.NewReader([]byte{2})}); err == nil {
		t.Fatalf("TicketsOrKeys.Decode accepted discriminator 2 (tickets=%v keys=%v)", tk.Tickets, tk.Keys)
	}
	var od OperandOrDeferredTransfer
	if err := od.Decode(&Decoder{buf: bytes.NewReader([]byte{7})}); err == nil {
		t.Fatal("OperandOrDeferredTransfer.Decode accepted discriminator 7")
	}
}

// Decoding "absent" into a header that already carries an epoch mark left the old mark in place: the accepted
// bytes say "no epoch mark", the decoded value has one (C13: the result must be the value the bytes encode).
func TestHeaderAbsentOptionalClearsField(t *testing.T) {
	n := 32 + 32 + 32 + 4 + 1 + 1 + 2 + 96 + 1 + 96
	in := make([]byte, n) // all-zero header: both optionals absent, no offenders
	h := Header{EpochMark: &EpochMark{}, TicketsMark: &TicketsMark{}}
	if err := h.Decode(&Decoder{buf: bytes.NewReader(in)}); err != nil {
		t.Fatal(err)
	}
	if h.EpochMark != nil || h.TicketsMark != nil {
		t.Fatalf("absent optionals decoded as present: epoch mark %v, tickets mark %v", h.EpochMark != nil, h.TicketsMark != nil)
	}
}
