#!/bin/bash
# builds the verification engine offline with the cached go1.25.5 toolchain
set -e
cd /verif/govc
export PATH=/root/go/pkg/mod/golang.org/toolchain@v0.0.1-go1.25.5.linux-amd64/bin:$PATH
export GOTOOLCHAIN=local GOFLAGS=-mod=mod GOPROXY=off GOSUMDB=off CGO_ENABLED=0
mkdir -p /verif/bin
go build -o /verif/bin/govc .
echo "govc built"
