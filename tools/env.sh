# source me: offline Go environment able to build /repo (go.mod says 1.25.5)
export PATH=/root/go/pkg/mod/golang.org/toolchain@v0.0.1-go1.25.5.linux-amd64/bin:$PATH
export GOTOOLCHAIN=local GOFLAGS=-mod=mod GOPROXY=off GOSUMDB=off CGO_ENABLED=0
