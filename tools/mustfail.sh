#!/bin/bash
# Must-fail corpus: every seeded change that a check is documented to catch (DESIGN 10.4) is applied to /repo's working
# tree in turn, the check is run and must report a VIOLATION (exit 1), and the change is undone straight after.
# A seed that is no longer reported means a vacuity hole in the engine or a weakened contract. Run after every engine
# change:  tools/mustfail.sh [seed ...]
cd /verif
PAIRS="C01:C01 C02:C01 C03:C03 C04:C04 C05:C05 C06:C06 C07:C07 C08:C08 C09:C09 C10:C10 C12:C12 C13:C13 C14:C14 C16:C16 C18:C18 C19:C19 C19b:C19 C20:C20 C24:C24 C25:C25 C25b:C25 C29:C29 C31:C31 C32:C32 C33:C33"
[ $# -gt 0 ] && PAIRS=$(for s in "$@"; do for p in $PAIRS; do [ "${p%%:*}" = "$s" ] && echo $p; done; done)
bad=0
for p in $PAIRS; do
  seed=${p%%:*}; chk=${p##*:}
  out=$(./tools/with_seed.sh $seed ./check $chk 2>&1)
  if echo "$out" | grep -q "^VIOLATION property=$chk "; then
    echo "ok    seed $seed reported by $chk: $(echo "$out" | grep -m1 '^VIOLATION' | sed 's/.*obligation=//' | cut -c1-120)"
  else
    echo "MISS  seed $seed NOT reported by $chk"; echo "$out" | tail -3; bad=1
  fi
  if [ -n "$(git -C /repo status --porcelain)" ]; then echo "repo left dirty after $seed"; git -C /repo status --short; exit 2; fi
done
exit $bad
