#!/bin/bash
# usage: with_seed.sh <seed-dir> <command...>   — applies seeded/<dir>/patch.diff to /repo, runs the command, reverts.
# Refuses to run when /repo has uncommitted changes (they would be lost by the revert).
set -u
S=$1; shift
if [ -n "$(git -C /repo status --porcelain)" ]; then echo "with_seed: /repo has uncommitted changes; commit them first"; exit 2; fi
git -C /repo apply /verif/seeded/$S/patch.diff || { echo "with_seed: patch does not apply"; exit 2; }
"$@"; rc=$?
git -C /repo checkout -- . && git -C /repo clean -fdq
exit $rc
