#!/bin/bash
# usage: overlay_test.sh <repo-dir> <package dir relative to repo> <test file> <TestName>
# Runs one in-package test against <repo-dir> without writing into it: the file is injected with `go test -overlay`,
# the package's own test files are neutralised (KEEP_PKG_TESTS=1 keeps them: demos that use their helpers), and the missing cgo dependencies get the buildable stubs of /verif/stubs.
set -u
REPO=$(cd "$1" && pwd); PKG=$2; TF=$(readlink -f "$3"); TN=$4
. /verif/tools/env.sh
TMP=$(mktemp -d /tmp/ovtest.XXXXXX); trap 'rm -rf $TMP' EXIT
PKGNAME=$(grep -m1 '^package ' "$TF" | awk '{print $2}')
echo "package $PKGNAME" > $TMP/empty_test.go
python3 - "$REPO" "$PKG" "$TF" "$TMP" <<'PY'
import json,os,sys
repo,pkg,tf,tmp=sys.argv[1:5]
d=os.path.join(repo,pkg)
repl={os.path.join(d,"zz_overlay_demo_test.go"):tf}
if os.environ.get("KEEP_PKG_TESTS","0")!="1":
    for e in os.listdir(d):
        if e.endswith("_test.go"): repl[os.path.join(d,e)]=os.path.join(tmp,"empty_test.go")
repl[os.path.join(repo,"pkg/Rust-VRF/vrf-func-ffi/src/vrf.go")]="/verif/stubs/vrf_build/vrf.go"
repl[os.path.join(repo,"pkg/erasure_coding/erasure_coding.go")]="/verif/stubs/erasure_build/erasure_coding.go"
json.dump({"Replace":repl},open(os.path.join(tmp,"ov.json"),"w"))
PY
cd "$REPO/$PKG" && CGO_ENABLED=0 go test -overlay $TMP/ov.json -vet=off -count=1 -timeout 120s -run "^$TN\$" -v .
