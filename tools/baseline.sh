#!/bin/bash
# usage: baseline.sh [repo-dir]   — runs the repository's baseline suite (guard OFF) and compares with BASELINE.json stable_pass
D=${1:-/repo}
. /verif/tools/env.sh
export CGO_ENABLED=1
OUT=$(mktemp)
(cd "$D" && go test -mod=mod -json -vet=off -count=1 -timeout 25m ./... > "$OUT" 2>/dev/null)
python3 - "$OUT" <<'PY'
import json,sys
base=json.load(open('/root/.vp/BASELINE.json'))
want=set(base['stable_pass'])
passed=set();failed=set()
for line in open(sys.argv[1],errors='replace'):
    line=line.strip()
    if not line.startswith('{'): continue
    try: ev=json.loads(line)
    except Exception: continue
    a=ev.get('Action');t=ev.get('Test')
    if t is None or a not in('pass','fail'): continue
    tid=ev.get('Package','')+'::'+t
    (passed if a=='pass' else failed).add(tid)
passed-=failed
missing=sorted(want-passed)
print(f"baseline: {len(want&passed)}/{len(want)} stable tests pass; {len(missing)} missing")
for m in missing[:40]: print("  MISSING", m)
sys.exit(1 if missing else 0)
PY
rc=$?
rm -f "$OUT"
exit $rc
