#!/bin/bash
# usage: collect_seed2.sh <id> [suffix] — verify a seeded change left in /tmp/wt/<id> against the CURRENT /repo and store it.
# The demonstration is run through tools/overlay_test.sh (buildable stubs for the missing cgo packages).
set -u
ID=$1; SUF=${2:-}
WT=/tmp/wt/$ID; OUT=/verif/seeded/$ID$SUF
[ -n "$(git -C /repo status --porcelain)" ] && { echo "repo dirty"; exit 2; }
cd $WT || exit 2
DEMO=$(git status --porcelain | awk '/^\?\?/{print $2}' | grep "_test.go$" | head -1)
[ -z "$DEMO" ] && { echo "no demo test"; exit 2; }
PKG=$(dirname $DEMO)
TEST=$(grep -o "func TestSeeded[A-Za-z0-9_]*" $DEMO | head -1 | sed 's/func //')
mkdir -p $OUT
git diff > $OUT/patch.diff
cp $DEMO $OUT/$(basename $DEMO); cp SEEDED_NOTES.md $OUT/NOTES.md 2>/dev/null
cd /repo
/verif/tools/overlay_test.sh /repo $PKG $OUT/$(basename $DEMO) $TEST > /tmp/seed_without.txt 2>&1; RC_WITHOUT=$?
git apply $OUT/patch.diff || { echo "patch does not apply to current /repo"; exit 3; }
/verif/tools/overlay_test.sh /repo $PKG $OUT/$(basename $DEMO) $TEST > /tmp/seed_with.txt 2>&1; RC_WITH=$?
/verif/tools/baseline.sh /repo > /tmp/seed_base.txt 2>&1; RC_BASE=$?
git checkout -- . && git clean -fdq
echo "$ID: demo with change rc=$RC_WITH (want !=0); without rc=$RC_WITHOUT (want 0); baseline rc=$RC_BASE: $(tail -1 /tmp/seed_base.txt)"
python3 - <<PY
import json
json.dump({"property":"$ID","patch":"patch.diff","demo":"$(basename $DEMO)","demo_pkg":"$PKG","demo_test":"$TEST",
 "demo_fails_with_change":$RC_WITH!=0,"demo_passes_without_change":$RC_WITHOUT==0,"baseline_passes_with_change":$RC_BASE==0,
 "ran":["tools/overlay_test.sh /repo $PKG <demo> $TEST with the patch applied to /repo and without it","tools/baseline.sh /repo with the patch applied (229 stable tests)"],
 "needs":"see NOTES.md"},open("$OUT/meta.json","w"),indent=1)
PY
if [ $RC_WITH -ne 0 ] && [ $RC_WITHOUT -eq 0 ] && [ $RC_BASE -eq 0 ]; then echo "SEED $ID OK"; else echo "SEED $ID REJECTED"; tail -5 /tmp/seed_with.txt /tmp/seed_without.txt; fi
