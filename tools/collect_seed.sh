#!/bin/bash
# usage: collect_seed.sh <id> [suffix]  — verify a seeded change left in /tmp/wt/<id> and store it under /verif/seeded/<id><suffix>/
set -u
ID=$1; SUF=${2:-}
WT=/tmp/wt/$ID
OUT=/verif/seeded/$ID$SUF
. /verif/tools/env.sh; export CGO_ENABLED=1
cd $WT || exit 2
DEMO=$(git status --porcelain | awk '/^\?\?/{print $2}' | grep "_test.go$" | head -1)
[ -z "$DEMO" ] && { echo "no demo test"; exit 2; }
PKG=./$(dirname $DEMO)/
mkdir -p $OUT
git diff > $OUT/patch.diff
cp $DEMO $OUT/$(basename $DEMO)
cp SEEDED_NOTES.md $OUT/NOTES.md 2>/dev/null
TEST=$(grep -o "func TestSeeded[A-Za-z0-9_]*" $DEMO | head -1 | sed 's/func //')
echo "demo=$DEMO pkg=$PKG test=$TEST"
# with change
go test -vet=off -count=1 -run "^$TEST\$" $PKG > /tmp/seed_with.txt 2>&1; RC_WITH=$?
git stash -q
go test -vet=off -count=1 -run "^$TEST\$" $PKG > /tmp/seed_without.txt 2>&1; RC_WITHOUT=$?
git stash pop -q
echo "demo with change rc=$RC_WITH (want !=0); without rc=$RC_WITHOUT (want 0)"
mv $DEMO /tmp/seed_demo_hold.go
/verif/tools/baseline.sh $WT > /tmp/seed_base.txt 2>&1; RC_BASE=$?
mv /tmp/seed_demo_hold.go $DEMO
tail -3 /tmp/seed_base.txt
python3 - <<PY
import json
json.dump({"property":"$ID","patch":"patch.diff","demo":"$(basename $DEMO)","demo_pkg":"$PKG","demo_test":"$TEST",
 "demo_fails_with_change":$RC_WITH!=0,"demo_passes_without_change":$RC_WITHOUT==0,"baseline_passes_with_change":$RC_BASE==0,
 "ran":["go test -vet=off -count=1 -run ^$TEST\$ $PKG (with and without patch, via git stash)","/verif/tools/baseline.sh <worktree> (229 stable tests, demo moved aside)"],
 "needs":"see NOTES.md"},open("$OUT/meta.json","w"),indent=1)
PY
if [ $RC_WITH -ne 0 ] && [ $RC_WITHOUT -eq 0 ] && [ $RC_BASE -eq 0 ]; then echo "SEED $ID OK"; else echo "SEED $ID REJECTED"; fi
