#!/usr/bin/env python3
# Regenerates /verif/MANIFEST.json from props.json + claims.json (claims.json holds the per-property texts).
import json,subprocess
props=json.load(open('/verif/props.json'))
claims=json.load(open('/verif/claims.json'))
ids=[json.loads(l)['id'] for l in open('/verif/properties.jsonl')]
hook_commits=subprocess.run(['git','-C','/repo','log','--format=%H %s'],capture_output=True,text=True).stdout.strip().split('\n')
hooks=[l.split()[0] for l in hook_commits if l.split(' ',1)[1].startswith('verif:')]
checks=[]
for i in ids:
    if i in props and i in claims.get('claimed',{}):
        c=claims['claimed'][i]
        checks.append({"property_id":i,"quick_cmd":"./check %s"%i,"thorough_cmd":"./check %s --thorough"%i,
          "evidence_file":"/verif/evidence/%s.json"%i,"replay_cmd_template":"./bin/govc replay {path}","engine":"govc",
          "level_claimed":{"category":props[i].get('level','proof'),"text":c['text'],"design_ref":c.get('design_ref','DESIGN.md §4 '+i)},
          "level_note":c['note'],"technique":c.get('technique',"contract-based deductive verification: weakest-precondition style VCs generated from go/ssa of the real functions under //@ contracts, discharged by z3/cvc5")})
na=[{"property_id":i,"reason":claims['not_applicable'].get(i,"check not built yet (planned, see DESIGN.md §4)")} for i in ids if not any(c['property_id']==i for c in checks)]
m={"version":1,"setup_cmd":"./setup.sh",
 "hooks":{"guard":"verif","enable":"contracts are comment-only files <pkg>/verif_contracts*.go with //go:build verif; the only executable hooks are the harness files PVM/verif_hooks.go (dispatcher and step-pair harness for the single-step engine) and internal/types/verif_hooks*.go (codec round-trip harness), also //go:build verif; govc loads /repo with -tags=verif, the node is built without the tag","baseline_off_cmd":"/verif/tools/baseline.sh /repo","source_commits":hooks,"add_only":True},
 "engines":[{"name":"govc","path":"/verif/govc","serves_properties":[c['property_id'] for c in checks],"kind_free_text":"VC generator over go/ssa (forward symbolic execution, exact 64-bit machine arithmetic, heap regions, loop unrolling with unwinding checks or invariants) + SMT portfolio (z3 5.1.0, z3 4.8.12, cvc5 1.0) + model replay on the real code via go test -overlay"}],
 "checks":checks,"notes":claims.get('notes',''),"not_applicable":na}
json.dump(m,open('/verif/MANIFEST.json','w'),indent=1)
print(len(checks),"checks,",len(na),"not applicable")
