; Gray Paper v0.7.2 (C.6) general natural-number serialisation E(x), x < 2^64, written from the GP text:
;   E(x) = [0]                                                       if x = 0
;   E(x) = [2^8 - 2^(8-l) + floor(x / 2^(8l))] ++ E_l(x mod 2^(8l))   if exists l in N_8 : 2^(7l) <= x < 2^(7(l+1))
;   E(x) = [2^8 - 1] ++ E_8(x)                                         otherwise (x >= 2^56)
; nat_l(x)   : the l of the definition (0..7), 8 for the last case
; nat_len(x) : number of octets = l + 1
; nat_byte(x, i) : octet i of E(x), for 0 <= i < nat_len(x)
(define-fun nat_l ((x (_ BitVec 64))) (_ BitVec 64)
  (ite (bvult x #x0000000000000080) #x0000000000000000
  (ite (bvult x #x0000000000004000) #x0000000000000001
  (ite (bvult x #x0000000000200000) #x0000000000000002
  (ite (bvult x #x0000000010000000) #x0000000000000003
  (ite (bvult x #x0000000800000000) #x0000000000000004
  (ite (bvult x #x0000040000000000) #x0000000000000005
  (ite (bvult x #x0002000000000000) #x0000000000000006
  (ite (bvult x #x0100000000000000) #x0000000000000007
       #x0000000000000008)))))))))
(define-fun nat_len ((x (_ BitVec 64))) (_ BitVec 64) (bvadd (nat_l x) #x0000000000000001))
; first octet
(define-fun nat_head ((x (_ BitVec 64))) (_ BitVec 8)
  (ite (= (nat_l x) #x0000000000000008) #xff
    ((_ extract 7 0)
      (bvadd (bvsub #x0000000000000100 (bvshl #x0000000000000001 (bvsub #x0000000000000008 (nat_l x))))
             (bvlshr x (bvmul #x0000000000000008 (nat_l x)))))))
(define-fun nat_byte ((x (_ BitVec 64)) (i (_ BitVec 64))) (_ BitVec 8)
  (ite (= i #x0000000000000000) (nat_head x)
    ((_ extract 7 0) (bvlshr x (bvmul #x0000000000000008 (bvsub i #x0000000000000001))))))
