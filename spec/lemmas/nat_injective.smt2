; E is prefix-free and injective: if E(x) is a prefix of E(y) (as octet strings) then x = y.
(set-logic ALL)
(define-fun nat_l ((x (_ BitVec 64))) (_ BitVec 64)
  (ite (bvult x #x0000000000000080) #x0000000000000000
  (ite (bvult x #x0000000000004000) #x0000000000000001
  (ite (bvult x #x0000000000200000) #x0000000000000002
  (ite (bvult x #x0000000010000000) #x0000000000000003
  (ite (bvult x #x0000000800000000) #x0000000000000004
  (ite (bvult x #x0000040000000000) #x0000000000000005
  (ite (bvult x #x0002000000000000) #x0000000000000006
  (ite (bvult x #x0100000000000000) #x0000000000000007
       #x0000000000000008)))))))))
(define-fun nat_len ((x (_ BitVec 64))) (_ BitVec 64) (bvadd (nat_l x) #x0000000000000001))
(define-fun nat_head ((x (_ BitVec 64))) (_ BitVec 8)
  (ite (= (nat_l x) #x0000000000000008) #xff
    ((_ extract 7 0)
      (bvadd (bvsub #x0000000000000100 (bvshl #x0000000000000001 (bvsub #x0000000000000008 (nat_l x))))
             (bvlshr x (bvmul #x0000000000000008 (nat_l x)))))))
(define-fun nat_byte ((x (_ BitVec 64)) (i (_ BitVec 64))) (_ BitVec 8)
  (ite (= i #x0000000000000000) (nat_head x)
    ((_ extract 7 0) (bvlshr x (bvmul #x0000000000000008 (bvsub i #x0000000000000001))))))
(declare-const x (_ BitVec 64))
(declare-const y (_ BitVec 64))
(define-fun agree ((i (_ BitVec 64))) Bool (=> (bvult i (nat_len x)) (= (nat_byte x i) (nat_byte y i))))
(assert (bvule (nat_len x) (nat_len y)))
(assert (and (agree #x0000000000000000) (agree #x0000000000000001) (agree #x0000000000000002) (agree #x0000000000000003) (agree #x0000000000000004)
             (agree #x0000000000000005) (agree #x0000000000000006) (agree #x0000000000000007) (agree #x0000000000000008)))
(assert (not (= x y)))
(check-sat)
