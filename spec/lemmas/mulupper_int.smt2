; Justifies the sign-magnitude transcription of mul_upper_s_s / mul_upper_s_u in spec/gen_pvm.py.
; Claim (over the integers, p = magnitude product |A|*|B| treated as an arbitrary non-negative integer,
; W = 2^64, p = h*W + l with 0 <= l < W, 0 <= h < W):
;    floor( p / W) mod W  =  h
;    floor(-p / W) mod W  =  (W - 1 - h + (if l = 0 then 1 else 0)) mod W        ( = bvnot(h) + [l = 0] )
; The signed product Z8(A)*Z8(B) equals +p when the signs agree and -p when they differ (sign-magnitude
; multiplication), so GP's Z8^-1(floor(Z8(A)*Z8(B)/2^64)) is exactly the case split used in the spec.
(set-logic ALL)
(declare-const p Int)
(declare-const h Int)
(declare-const l Int)
(define-fun W () Int 18446744073709551616)
(assert (and (<= 0 l) (< l W) (<= 0 h) (< h W) (= p (+ (* h W) l))))
(assert (not (and
   (= (mod (div p W) W) h)
   (= (mod (div (- p) W) W) (mod (+ (- (- W 1) h) (ite (= l 0) 1 0)) W)))))
(check-sat)
