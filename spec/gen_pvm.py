#!/usr/bin/env python3
"""Generates spec/pvm.smt2: Gray Paper v0.7.2 Appendix A.5 instruction semantics as SMT-LIB definitions.

This table is the oracle; it is transcribed from the GP text, not from the code.  Conventions for the
pre-decoded handler fields (a naming convention, not semantics; see DESIGN.md C01):
   vd = prior value of the destination register, a = value of source register 0, b = value of source register 1,
   x  = first immediate (nu_X), y = second immediate (nu_Y)
   category           Dst    Src0   Src1   Imm0   Imm1
   one_reg_ext_imm    rA                   nuX
   one_reg_one_imm    rA     rA            nuX
   one_reg_two_imm    rA     rA            nuX    nuY
   one_reg_imm_off    rA     rA            nuX    target (= i + Z(nuY))
   two_reg            rD     rA
   two_reg_one_imm    rA     rB            nuX
   two_reg_one_off           rA     rB     target
   two_reg_two_imm    rA     rB            nuX    nuY
   three_reg          rD     rA     rB
"""
W64 = "(_ BitVec 64)"

def c64(v): return "#x%016x" % (v & (2**64-1))
def c32(v): return "#x%08x" % (v & (2**32-1))
def lo32(t): return "((_ extract 31 0) %s)" % t
def X4(t32): return "((_ sign_extend 32) %s)" % t32
def Z4(t32): return "((_ zero_extend 32) %s)" % t32
def b2i(c): return "(ite %s %s %s)" % (c, c64(1), c64(0))
def m32(t): return "(bvand %s %s)" % (lo32(t), c32(31))       # count mod 32 as 32-bit
def m64(t): return "(bvand %s %s)" % (t, c64(63))
def rotl(x, k, w, cw):  # k already reduced mod w, width w constant cw(w)
    return "(bvor (bvshl %s %s) (bvlshr %s (bvsub %s %s)))" % (x, k, x, cw(w), k)
def rotr(x, k, w, cw):
    return "(bvor (bvlshr %s %s) (bvshl %s (bvsub %s %s)))" % (x, k, x, cw(w), k)
def popcount(t, w):
    parts = ["((_ zero_extend 63) ((_ extract %d %d) %s))" % (i, i, t) for i in range(w)]
    r = parts[0]
    for p in parts[1:]:
        r = "(bvadd %s %s)" % (r, p)
    return r
def clz(t, w):
    r = c64(w)
    for i in range(w):
        r = "(ite (= ((_ extract %d %d) %s) #b1) %s %s)" % (i, i, t, c64(w-1-i), r)
    return r
def ctz(t, w):
    r = c64(w)
    for i in reversed(range(w)):
        r = "(ite (= ((_ extract %d %d) %s) #b1) %s %s)" % (i, i, t, c64(i), r)
    return r
def bswap64(t):
    parts = ["((_ extract %d %d) %s)" % (8*i+7, 8*i, t) for i in range(8)]
    return "(concat %s)" % " ".join(parts)   # byte 0 becomes most significant
def hi128(p): return "((_ extract 127 64) %s)" % p
def sx128(t): return "((_ sign_extend 64) %s)" % t
def zx128(t): return "((_ zero_extend 64) %s)" % t

def abs64(t): return "(ite (bvslt %s %s) (bvneg %s) %s)" % (t, c64(0), t, t)
def PMAG(u, v, both):  # 128-bit product of magnitudes: |u| * |v| (both signed) or |u| * v (v unsigned)
    return "(bvmul %s %s)" % (zx128(abs64(u)), zx128(abs64(v) if both else v))
def negceil(p):  # -ceil(p / 2^64) mod 2^64 for a 128-bit p
    return "(bvadd (bvnot %s) (ite (= ((_ extract 63 0) %s) %s) %s %s))" % (hi128(p), p, c64(0), c64(1), c64(0))

a, b, x, vd = "a", "b", "x", "vd"
a32, b32, x32 = lo32(a), lo32(b), lo32(x)
ONES = c64(-1)
MIN32 = "#x80000000"; M1_32 = "#xffffffff"
MIN64 = c64(1 << 63)
ALU = {
  # A.5.3 / A.5.6
  20: ("load_imm_64", x), 51: ("load_imm", x),
  # A.5.9 two registers: phi'_D = f(phi_A)
  100: ("move_reg", a),
  102: ("count_set_bits_64", popcount(a, 64)), 103: ("count_set_bits_32", popcount(a, 32)),
  104: ("leading_zero_bits_64", clz(a, 64)), 105: ("leading_zero_bits_32", clz(a32, 32)),
  106: ("trailing_zero_bits_64", ctz(a, 64)), 107: ("trailing_zero_bits_32", ctz(a32, 32)),
  108: ("sign_extend_8", "((_ sign_extend 56) ((_ extract 7 0) a))"), 109: ("sign_extend_16", "((_ sign_extend 48) ((_ extract 15 0) a))"),
  110: ("zero_extend_16", "((_ zero_extend 48) ((_ extract 15 0) a))"), 111: ("reverse_bytes", bswap64(a)),
  # A.5.10 two registers + immediate: phi'_A = f(phi_B, nu_X)   (a = phi_B)
  131: ("add_imm_32", X4(lo32("(bvadd a x)"))), 132: ("and_imm", "(bvand a x)"), 133: ("xor_imm", "(bvxor a x)"), 134: ("or_imm", "(bvor a x)"),
  135: ("mul_imm_32", X4(lo32("(bvmul a x)"))), 136: ("set_lt_u_imm", b2i("(bvult a x)")), 137: ("set_lt_s_imm", b2i("(bvslt a x)")),
  138: ("shlo_l_imm_32", X4("(bvshl %s %s)" % (a32, m32(x)))), 139: ("shlo_r_imm_32", X4("(bvlshr %s %s)" % (a32, m32(x)))),
  140: ("shar_r_imm_32", X4("(bvashr %s %s)" % (a32, m32(x)))), 141: ("neg_add_imm_32", X4(lo32("(bvsub x a)"))),
  142: ("set_gt_u_imm", b2i("(bvugt a x)")), 143: ("set_gt_s_imm", b2i("(bvsgt a x)")),
  144: ("shlo_l_imm_alt_32", X4("(bvshl %s %s)" % (x32, m32(a)))), 145: ("shlo_r_imm_alt_32", X4("(bvlshr %s %s)" % (x32, m32(a)))),
  146: ("shar_r_imm_alt_32", X4("(bvashr %s %s)" % (x32, m32(a)))),
  147: ("cmov_iz_imm", "(ite (= a %s) x vd)" % c64(0)), 148: ("cmov_nz_imm", "(ite (= a %s) vd x)" % c64(0)),
  149: ("add_imm_64", "(bvadd a x)"), 150: ("mul_imm_64", "(bvmul a x)"),
  151: ("shlo_l_imm_64", "(bvshl a %s)" % m64(x)), 152: ("shlo_r_imm_64", "(bvlshr a %s)" % m64(x)), 153: ("shar_r_imm_64", "(bvashr a %s)" % m64(x)),
  154: ("neg_add_imm_64", "(bvsub x a)"),
  155: ("shlo_l_imm_alt_64", "(bvshl x %s)" % m64(a)), 156: ("shlo_r_imm_alt_64", "(bvlshr x %s)" % m64(a)), 157: ("shar_r_imm_alt_64", "(bvashr x %s)" % m64(a)),
  158: ("rot_r_64_imm", rotr(a, m64(x), 64, c64)), 159: ("rot_r_64_imm_alt", rotr(x, m64(a), 64, c64)),
  160: ("rot_r_32_imm", X4(rotr(a32, m32(x), 32, c32))), 161: ("rot_r_32_imm_alt", X4(rotr(x32, m32(a), 32, c32))),
  # A.5.13 three registers: phi'_D = f(phi_A, phi_B)
  190: ("add_32", X4(lo32("(bvadd a b)"))), 191: ("sub_32", X4(lo32("(bvsub a b)"))), 192: ("mul_32", X4(lo32("(bvmul a b)"))),
  193: ("div_u_32", "(ite (= %s #x00000000) %s %s)" % (b32, ONES, X4("(bvudiv %s %s)" % (a32, b32)))),
  # 194/196: the GP formulas are over mathematical integers; sign-extending to 64 bits first makes the signed
  # division exact (no overflow is possible for 32-bit operands in 64 bits), so this is a faithful transcription.
  194: ("div_s_32", "(ite (= %s #x00000000) %s (ite (and (= %s %s) (= %s %s)) %s (bvsdiv %s %s)))" % (b32, ONES, a32, MIN32, b32, M1_32, X4(a32), X4(a32), X4(b32))),
  195: ("rem_u_32", "(ite (= %s #x00000000) %s %s)" % (b32, X4(a32), X4("(bvurem %s %s)" % (a32, b32)))),
  196: ("rem_s_32", "(ite (= %s #x00000000) %s (ite (and (= %s %s) (= %s %s)) %s (bvsrem %s %s)))" % (b32, X4(a32), a32, MIN32, b32, M1_32, c64(0), X4(a32), X4(b32))),
  197: ("shlo_l_32", X4("(bvshl %s %s)" % (a32, m32(b)))), 198: ("shlo_r_32", X4("(bvlshr %s %s)" % (a32, m32(b)))), 199: ("shar_r_32", X4("(bvashr %s %s)" % (a32, m32(b)))),
  200: ("add_64", "(bvadd a b)"), 201: ("sub_64", "(bvsub a b)"), 202: ("mul_64", "(bvmul a b)"),
  203: ("div_u_64", "(ite (= b %s) %s (bvudiv a b))" % (c64(0), ONES)),
  204: ("div_s_64", "(ite (= b %s) %s (ite (and (= a %s) (= b %s)) a (bvsdiv a b)))" % (c64(0), ONES, MIN64, ONES)),
  205: ("rem_u_64", "(ite (= b %s) a (bvurem a b))" % c64(0)),
  206: ("rem_s_64", "(ite (= b %s) a (ite (and (= a %s) (= b %s)) %s (bvsrem a b)))" % (c64(0), MIN64, ONES, c64(0))),
  207: ("shlo_l_64", "(bvshl a %s)" % m64(b)), 208: ("shlo_r_64", "(bvlshr a %s)" % m64(b)), 209: ("shar_r_64", "(bvashr a %s)" % m64(b)),
  210: ("and", "(bvand a b)"), 211: ("xor", "(bvxor a b)"), 212: ("or", "(bvor a b)"),
  # 213/215: GP: Z8^-1(floor(Z8(phi_A) * Z8(phi_B) / 2^64)) resp. Z8^-1(floor(Z8(phi_A) * phi_B / 2^64)).
  # Written in sign-magnitude form (floor(-p/2^64) = -ceil(p/2^64) for the magnitude product p >= 0) because no
  # installed solver decides the 128-bit two's-complement multiplier equivalence; the identity between this form and
  # the GP integer formula is the machine-checked lemma spec/lemmas/mulupper_int.smt2 (linear integer arithmetic).
  213: ("mul_upper_s_s", "(ite (= (bvslt a %s) (bvslt b %s)) %s %s)" % (c64(0), c64(0), hi128(PMAG("a", "b", True)), negceil(PMAG("a", "b", True)))),
  214: ("mul_upper_u_u", hi128("(bvmul %s %s)" % (zx128(a), zx128(b)))),
  215: ("mul_upper_s_u", "(ite (bvslt a %s) %s %s)" % (c64(0), negceil(PMAG("a", "b", False)), hi128(PMAG("a", "b", False)))),
  216: ("set_lt_u", b2i("(bvult a b)")), 217: ("set_lt_s", b2i("(bvslt a b)")),
  218: ("cmov_iz", "(ite (= b %s) a vd)" % c64(0)), 219: ("cmov_nz", "(ite (= b %s) vd a)" % c64(0)),
  220: ("rot_l_64", rotl(a, m64(b), 64, c64)), 221: ("rot_l_32", X4(rotl(a32, m32(b), 32, c32))),
  222: ("rot_r_64", rotr(a, m64(b), 64, c64)), 223: ("rot_r_32", X4(rotr(a32, m32(b), 32, c32))),
  224: ("and_inv", "(bvand a (bvnot b))"), 225: ("or_inv", "(bvor a (bvnot b))"), 226: ("xnor", "(bvnot (bvxor a b))"),
  227: ("max", "(ite (bvsgt a b) a b)"), 228: ("max_u", "(ite (bvugt a b) a b)"), 229: ("min", "(ite (bvslt a b) a b)"), 230: ("min_u", "(ite (bvult a b) a b)"),
}
# branch conditions (A.5.8, A.5.11): a = phi_A; for *_imm forms the second operand is nu_X, otherwise phi_B
BR = {
  81: ("branch_eq_imm", "(= a x)"), 82: ("branch_ne_imm", "(not (= a x))"), 83: ("branch_lt_u_imm", "(bvult a x)"), 84: ("branch_le_u_imm", "(bvule a x)"),
  85: ("branch_ge_u_imm", "(bvuge a x)"), 86: ("branch_gt_u_imm", "(bvugt a x)"), 87: ("branch_lt_s_imm", "(bvslt a x)"), 88: ("branch_le_s_imm", "(bvsle a x)"),
  89: ("branch_ge_s_imm", "(bvsge a x)"), 90: ("branch_gt_s_imm", "(bvsgt a x)"),
  170: ("branch_eq", "(= a b)"), 171: ("branch_ne", "(not (= a b))"), 172: ("branch_lt_u", "(bvult a b)"), 173: ("branch_lt_s", "(bvslt a b)"),
  174: ("branch_ge_u", "(bvuge a b)"), 175: ("branch_ge_s", "(bvsge a b)"),
}
CATS = {  # opcode ranges per operand category (GP A.5.1 - A.5.13)
  "no_arg": [0, 1], "one_imm": [10], "one_reg_ext_imm": [20], "two_imm": [30, 31, 32, 33], "one_off": [40],
  "one_reg_one_imm": list(range(50, 63)), "one_reg_two_imm": [70, 71, 72, 73], "one_reg_imm_off": list(range(80, 91)),
  "two_reg": list(range(100, 112)), "two_reg_one_imm": list(range(120, 162)), "two_reg_one_off": list(range(170, 176)),
  "two_reg_two_imm": [180], "three_reg": list(range(190, 231)),
}
VALID = sorted(sum(CATS.values(), []))
NEEDS_DST = sorted(CATS["one_reg_ext_imm"] + CATS["one_reg_one_imm"] + CATS["one_reg_two_imm"] + CATS["one_reg_imm_off"] + CATS["two_reg"] + CATS["two_reg_one_imm"] + CATS["two_reg_two_imm"] + CATS["three_reg"])
NEEDS_S0 = sorted(CATS["one_reg_one_imm"] + CATS["one_reg_two_imm"] + CATS["one_reg_imm_off"] + CATS["two_reg"] + CATS["two_reg_one_imm"] + CATS["two_reg_one_off"] + CATS["two_reg_two_imm"] + CATS["three_reg"])
NEEDS_S1 = sorted(CATS["two_reg_one_off"] + CATS["three_reg"])
TERMINATORS = sorted([0, 1, 40, 50, 180] + CATS["one_reg_imm_off"] + CATS["two_reg_one_off"])

def op8(k): return "#x%02x" % k
def member(name, ks):
    body = "false" if not ks else "(or %s)" % " ".join("(= op %s)" % op8(k) for k in ks)
    return "(define-fun %s ((op (_ BitVec 8))) Bool %s)\n" % (name, body)

out = []
out.append("; GENERATED by spec/gen_pvm.py from the Gray Paper v0.7.2 Appendix A.5 table in that file. Do not edit.\n")
out.append(member("pvm_valid", VALID))
out.append(member("pvm_is_alu", sorted(ALU)))
out.append(member("pvm_is_cond_branch", sorted(BR)))
out.append(member("pvm_is_ecalli", [10]))
out.append(member("pvm_needs_dst", NEEDS_DST))
out.append(member("pvm_needs_src0", NEEDS_S0))
out.append(member("pvm_needs_src1", NEEDS_S1))
out.append(member("pvm_terminator", TERMINATORS))
# categories whose single register operand r_A is recorded in both the Dst and the Src0 field
out.append(member("pvm_dst_is_src0", sorted(CATS["one_reg_one_imm"] + CATS["one_reg_two_imm"] + CATS["one_reg_imm_off"])))
body = c64(0)
for k in sorted(ALU, reverse=True):
    body = "(ite (= op %s) %s\n  %s)" % (op8(k), ALU[k][1], body)
out.append("; value written to the destination register by the single-register-write instructions\n")
out.append("(define-fun pvm_alu ((op (_ BitVec 8)) (vd %s) (a %s) (b %s) (x %s)) %s\n  %s)\n" % (W64, W64, W64, W64, W64, body))
body = "false"
for k in sorted(BR, reverse=True):
    body = "(ite (= op %s) %s\n  %s)" % (op8(k), BR[k][1], body)
out.append("; branch condition of the conditional branches\n")
out.append("(define-fun pvm_cond ((op (_ BitVec 8)) (a %s) (b %s) (x %s)) Bool\n  %s)\n" % (W64, W64, W64, body))
# memory access widths and sign extension for loads/stores (A.5.4, A.5.6, A.5.7, A.5.10)
LOADS = {52: (1, 0), 53: (1, 1), 54: (2, 0), 55: (2, 1), 56: (4, 0), 57: (4, 1), 58: (8, 0), 124: (1, 0), 125: (1, 1), 126: (2, 0), 127: (2, 1), 128: (4, 0), 129: (4, 1), 130: (8, 0)}
STORES = {30: 1, 31: 2, 32: 4, 33: 8, 59: 1, 60: 2, 61: 4, 62: 8, 70: 1, 71: 2, 72: 4, 73: 8, 120: 1, 121: 2, 122: 4, 123: 8}
out.append(member("pvm_is_load", sorted(LOADS)))
out.append(member("pvm_is_store", sorted(STORES)))
body = c64(0)
for k in sorted(set(LOADS) | set(STORES), reverse=True):
    n = LOADS[k][0] if k in LOADS else STORES[k]
    body = "(ite (= op %s) %s %s)" % (op8(k), c64(n), body)
out.append("(define-fun pvm_mem_width ((op (_ BitVec 8))) %s %s)\n" % (W64, body))
out.append(member("pvm_load_signed", sorted(k for k in LOADS if LOADS[k][1])))
# value placed in the register by a load of n octets: the little-endian natural, sign-extended (X_n) for load_i*
body = "v"
for k in sorted((k for k in LOADS if LOADS[k][1]), reverse=True):
    n = LOADS[k][0]
    body = "(ite (= op %s) ((_ sign_extend %d) ((_ extract %d 0) v)) %s)" % (op8(k), 64 - 8*n, 8*n - 1, body)
out.append("(define-fun pvm_load_ext ((op (_ BitVec 8)) (v %s)) %s %s)\n" % (W64, W64, body))
# value written by a store of n octets: (value mod 2^(8n))
body = "v"
for k in sorted(STORES, reverse=True):
    n = STORES[k]
    if n < 8:
        body = "(ite (= op %s) ((_ zero_extend %d) ((_ extract %d 0) v)) %s)" % (op8(k), 64 - 8*n, 8*n - 1, body)
out.append("(define-fun pvm_store_trunc ((op (_ BitVec 8)) (v %s)) %s %s)\n" % (W64, W64, body))
# effective address of a memory access: (base + nu_X) mod 2^32
out.append("; A.5.4: nu_X ; A.5.6: nu_X ; A.5.7: phi_A + nu_X ; A.5.10: phi_B + nu_X   (all mod 2^32)\n")
direct = sorted([30, 31, 32, 33] + list(range(52, 63)))
out.append(member("pvm_mem_direct", direct))
out.append("(define-fun pvm_mem_addr ((op (_ BitVec 8)) (a %s) (x %s)) (_ BitVec 32) ((_ extract 31 0) (ite (pvm_mem_direct op) x (bvadd a x))))\n" % (W64, W64))
# value stored: A.5.4/A.5.7: nu_Y mod 2^(8n) ; A.5.6: phi_A ; A.5.10: phi_A (= destination-field register)
out.append(member("pvm_store_imm", [30, 31, 32, 33, 70, 71, 72, 73]))
open(__file__.replace("gen_pvm.py", "pvm.smt2"), "w").write("".join(out))
print("wrote pvm.smt2:", len(ALU), "alu ops,", len(BR), "conditional branches")
