package main

import (
	"fmt"
	"go/token"
	"go/types"
	"sort"
	"strings"

	"golang.org/x/tools/go/ssa"
)

type Edge struct {
	From, To *ssa.BasicBlock
	St       *State
	Live     map[ssa.Value]Val
}

type Loop struct {
	Header  *ssa.BasicBlock
	Blocks  map[*ssa.BasicBlock]bool
	Parent  *Loop
	LiveOut []ssa.Value
	Ordinal int // among loops of the function in header order
}

type Frame struct {
	Fn       *ssa.Function
	Env      map[ssa.Value]Val
	RPO      []*ssa.BasicBlock
	Loops    []*Loop
	LoopOf   map[*ssa.BasicBlock]*Loop // innermost loop containing block
	HeadOf   map[*ssa.BasicBlock]*Loop
	Prefix   string // obligation-name prefix (call chain)
	Rets     []RetEdge
	Defers   []deferred
	Names    map[string][]ssa.Value // source variable name -> SSA values (from DebugRef)
	Pre      *State                 // state at entry (for old())
	Args     []Val
	Depth    int
	Contract *FnContract
}

type deferred struct {
	call *ssa.CallCommon
	vals []Val
	fnv  Val
}

type RetEdge struct {
	St   *State
	Vals []Val
}

type Exec struct {
	C                             *Ctx
	P                             *Program
	DB                            *ContractDB
	Top                           *ssa.Function
	TopName                       string
	initHeap                      map[string]Term
	regionSort                    map[string]Sort
	globals                       map[*ssa.Global]int
	inc                           *IncSolver
	MaxUnroll                     int
	MaxDepth                      int
	stack                         []*ssa.Function
	oblSeen                       map[string]int
	srcOrd                        map[string]int
	Opts                          ExecOpts
	feasCalls                     int
	epochs                        []epochInfo
	epochHeap                     map[string]Term
	snapRefs                      map[string]bool
	snapOrigins                   map[string]snapOrigin
	keepPrivate                   bool
	livePriv                      []PtrV
	privCache                     map[*ssa.Alloc]bool
	havocked                      bool
	sigs                          map[string]SpecSig
	specFiles                     []string
	allowStdInline                map[string]bool
	boundPhis                     map[*ssa.Phi]Val
	ctxPCs                        []Term // path conditions of the enclosing (inlining) call sites
	globalPinned                  map[*ssa.Global]bool
	stableCache                   []*ssa.Global
	roInit                        map[string]Term // reference (constant term) of a read-only package variable -> its initialiser
	frameEvals, minRegionsAtFrame int
	regionTypes                   map[string]types.Type     // heap region -> Go type of its objects / elements
	storeDefs                     map[string][3]string      // named heap term -> (array, index, value) of the store it names
	roElems                       map[string]map[int64]Term // read-only array globals: element terms by constant index
	uremSeen                      map[string]bool
	topGhosts                     map[string]Val      // ghost variables / lets of the function under verification (visible in its loop invariants)
	ifaceOrigin                   map[string]ifaceOrg // interface term (as named by its MakeInterface) -> dynamic type and boxed value
	dirty                         map[string]bool     // heap regions in which an object that existed at entry may have been written
	dirtyAll                      bool
	oldWrites                     int     // stores whose target is not syntactically an object allocated by the function itself
	allocBound                    *Clause // `opt alloc=<expr>`: byte bound for data-dependent allocations
	topContract                   *FnContract
	topArgs                       []Val
}

type ExecOpts struct {
	NoPanicObl   bool // do not generate safety obligations (used when inlining spec-side helpers)
	AllocBound   bool // generate alloc-size obligations
	TrustInlined bool
}

type Unsupported struct{ Msg string }

func (u *Unsupported) Error() string { return "unsupported: " + u.Msg }

func unsupported(format string, args ...interface{}) error {
	return &Unsupported{Msg: fmt.Sprintf(format, args...)}
}

type ifaceOrg struct {
	Typ types.Type
	Val Val
}

func NewExec(p *Program, db *ContractDB, fn *ssa.Function) *Exec {
	x := &Exec{C: NewCtx(p), P: p, DB: db, Top: fn, TopName: FuncDisplayName(fn), initHeap: map[string]Term{}, regionSort: map[string]Sort{},
		globals: map[*ssa.Global]int{}, MaxUnroll: 80, MaxDepth: 12, oblSeen: map[string]int{}, srcOrd: map[string]int{}, epochs: []epochInfo{{}}, epochHeap: map[string]Term{}, snapRefs: map[string]bool{}, allowStdInline: map[string]bool{}}
	return x
}

// ---------- CFG analysis ----------

func buildFrame(fn *ssa.Function) *Frame {
	fr := &Frame{Fn: fn, Env: map[ssa.Value]Val{}, LoopOf: map[*ssa.BasicBlock]*Loop{}, HeadOf: map[*ssa.BasicBlock]*Loop{}, Names: map[string][]ssa.Value{}}
	// reverse postorder ignoring nothing (DFS)
	seen := map[*ssa.BasicBlock]bool{}
	var post []*ssa.BasicBlock
	var dfs func(b *ssa.BasicBlock)
	dfs = func(b *ssa.BasicBlock) {
		seen[b] = true
		for _, s := range b.Succs {
			if !seen[s] {
				dfs(s)
			}
		}
		post = append(post, b)
	}
	if len(fn.Blocks) > 0 {
		dfs(fn.Blocks[0])
	}
	for i := len(post) - 1; i >= 0; i-- {
		fr.RPO = append(fr.RPO, post[i])
	}
	// natural loops
	loops := map[*ssa.BasicBlock]*Loop{}
	for _, u := range fr.RPO {
		for _, h := range u.Succs {
			if h.Dominates(u) {
				l := loops[h]
				if l == nil {
					l = &Loop{Header: h, Blocks: map[*ssa.BasicBlock]bool{h: true}}
					loops[h] = l
				}
				// add all nodes reaching u without passing h
				var stack []*ssa.BasicBlock
				if !l.Blocks[u] {
					l.Blocks[u] = true
					stack = append(stack, u)
				}
				for len(stack) > 0 {
					n := stack[len(stack)-1]
					stack = stack[:len(stack)-1]
					for _, p := range n.Preds {
						if !l.Blocks[p] && seen[p] {
							l.Blocks[p] = true
							stack = append(stack, p)
						}
					}
				}
			}
		}
	}
	for _, b := range fr.RPO {
		if l := loops[b]; l != nil {
			l.Ordinal = len(fr.Loops)
			fr.Loops = append(fr.Loops, l)
			fr.HeadOf[b] = l
		}
	}
	// nesting: parent = smallest strictly containing loop
	for _, l := range fr.Loops {
		for _, m := range fr.Loops {
			if m == l || !m.Blocks[l.Header] || len(m.Blocks) <= len(l.Blocks) {
				continue
			}
			if l.Parent == nil || len(m.Blocks) < len(l.Parent.Blocks) {
				l.Parent = m
			}
		}
	}
	for _, b := range fr.RPO {
		var inner *Loop
		for _, l := range fr.Loops {
			if l.Blocks[b] && (inner == nil || len(l.Blocks) < len(inner.Blocks)) {
				inner = l
			}
		}
		fr.LoopOf[b] = inner
	}
	// live-out values
	for _, l := range fr.Loops {
		set := map[ssa.Value]bool{}
		for b := range l.Blocks {
			for _, ins := range b.Instrs {
				v, ok := ins.(ssa.Value)
				if !ok || v.Referrers() == nil {
					continue
				}
				for _, r := range *v.Referrers() {
					if rb := r.Block(); rb != nil && !l.Blocks[rb] {
						set[v] = true
					}
				}
			}
		}
		for v := range set {
			l.LiveOut = append(l.LiveOut, v)
		}
		sort.Slice(l.LiveOut, func(i, j int) bool { return l.LiveOut[i].Name() < l.LiveOut[j].Name() })
	}
	return fr
}

func (l *Loop) contains(m *Loop) bool {
	for ; m != nil; m = m.Parent {
		if m == l {
			return true
		}
	}
	return false
}

// ---------- function execution ----------

// CallFunction symbolically executes fn with args in state st (modified in place to the merged return state).
// Returns the merged results. If no path returns normally, st.PC becomes false.
func (x *Exec) CallFunction(fn *ssa.Function, args []Val, st *State, prefix string, depth int) ([]Val, error) {
	if len(fn.Blocks) == 0 {
		return nil, unsupported("function %s has no body", fn)
	}
	if depth > x.MaxDepth {
		return nil, unsupported("inlining depth exceeded at %s", fn)
	}
	for _, f := range x.stack {
		if f == fn {
			return nil, unsupported("recursive call to %s needs a contract", fn)
		}
	}
	x.stack = append(x.stack, fn)
	defer func() { x.stack = x.stack[:len(x.stack)-1] }()

	fr := buildFrame(fn)
	fr.Prefix = prefix
	fr.Depth = depth
	fr.Args = args
	fr.Pre = st.Clone()
	for i, p := range fn.Params {
		if i < len(args) {
			fr.Env[p] = args[i]
		}
	}
	// run the callee with a path condition relative to the call
	entryPC := st.PC
	x.ctxPCs = append(x.ctxPCs, entryPC)
	st.PC = TTrue
	fr.Pre.PC = TTrue
	err := x.runFrame(fr, st)
	var res []Val
	if err == nil {
		res, err = x.finishFrame(fr, st)
	}
	x.ctxPCs = x.ctxPCs[:len(x.ctxPCs)-1]
	if err != nil {
		return nil, err
	}
	st.PC = x.C.Name("pc", And(entryPC, st.PC))
	return res, nil
}

func (x *Exec) runFrame(fr *Frame, st *State) error {
	entry := fr.Fn.Blocks[0]
	exits, _, err := x.execRegion(fr, nil, entry, []Edge{{From: nil, To: entry, St: st.Clone()}})
	if err != nil {
		return err
	}
	if len(exits) != 0 {
		return fmt.Errorf("internal: top region has exits")
	}
	return nil
}

func (x *Exec) finishFrame(fr *Frame, st *State) ([]Val, error) {
	if len(fr.Rets) == 0 {
		st.PC = TFalse
		// produce dummy results
		res := fr.Fn.Signature.Results()
		out := make([]Val, res.Len())
		for i := 0; i < res.Len(); i++ {
			out[i] = x.zeroVal(res.At(i).Type())
		}
		return out, nil
	}
	var sts []*State
	for _, r := range fr.Rets {
		sts = append(sts, r.St)
	}
	m := x.mergeStates(sts)
	n := len(fr.Rets[0].Vals)
	out := make([]Val, n)
	for i := 0; i < n; i++ {
		cur := fr.Rets[len(fr.Rets)-1].Vals[i]
		for k := len(fr.Rets) - 2; k >= 0; k-- {
			mv, err := x.mergeVal(fr.Rets[k].St.PC, fr.Rets[k].Vals[i], cur)
			if err != nil {
				return nil, unsupported("merging results of %s: %v", fr.Fn, err)
			}
			cur = mv
		}
		out[i] = x.nameVal("ret", cur)
	}
	*st = *m
	return out, nil
}

func (x *Exec) nameVal(hint string, v Val) Val {
	switch v := v.(type) {
	case TV:
		return TV{T: x.C.Name(hint, v.T), Typ: v.Typ}
	case PtrV:
		v.Base = x.C.Name(hint, v.Base)
		np := make([]Step, len(v.Path))
		for i, s := range v.Path {
			if !s.IsField {
				s.Index = x.C.Name(hint, s.Index)
			}
			np[i] = s
		}
		v.Path = np
		return v
	case TupleV:
		out := make(TupleV, len(v))
		for i := range v {
			out[i] = x.nameVal(hint, v[i])
		}
		return out
	}
	return v
}

func (x *Exec) zeroVal(t types.Type) Val {
	if tup, ok := t.(*types.Tuple); ok {
		out := make(TupleV, tup.Len())
		for i := range out {
			out[i] = x.zeroVal(tup.At(i).Type())
		}
		return out
	}
	return x.fromTerm(x.C.Zero(t), t)
}

// execRegion executes the blocks of loop L (or the whole function when L == nil) once, starting at entry.
func (x *Exec) execRegion(fr *Frame, L *Loop, entry *ssa.BasicBlock, in []Edge) (exits []Edge, backs []Edge, err error) {
	inRegion := func(b *ssa.BasicBlock) bool { return L == nil || L.Blocks[b] }
	incoming := map[*ssa.BasicBlock][]Edge{entry: in}
	route := func(es []Edge) {
		for _, e := range es {
			if L != nil && e.To == L.Header {
				backs = append(backs, e)
			} else if inRegion(e.To) {
				incoming[e.To] = append(incoming[e.To], e)
			} else {
				exits = append(exits, e)
			}
		}
	}
	for _, b := range fr.RPO {
		if !inRegion(b) {
			continue
		}
		inner := fr.LoopOf[b]
		if inner != L {
			// block inside a nested loop
			if hl := fr.HeadOf[b]; hl != nil && hl.Parent == L {
				es := incoming[b]
				if len(es) == 0 {
					continue
				}
				out, err := x.execLoop(fr, hl, es)
				if err != nil {
					return nil, nil, err
				}
				route(out)
			}
			continue
		}
		es := incoming[b]
		if len(es) == 0 {
			continue
		}
		delete(incoming, b)
		out, err := x.execBlock(fr, b, es)
		if err != nil {
			return nil, nil, err
		}
		// snapshot live-out values for edges leaving loops
		for i := range out {
			x.snapshotLive(fr, &out[i])
		}
		route(out)
	}
	return exits, backs, nil
}

func (x *Exec) snapshotLive(fr *Frame, e *Edge) {
	for l := fr.LoopOf[e.From]; l != nil; l = l.Parent {
		if l.Blocks[e.To] {
			break // edge stays inside l (including back edges)
		}
		for _, v := range l.LiveOut {
			if val, ok := fr.Env[v]; ok {
				if e.Live == nil {
					e.Live = map[ssa.Value]Val{}
				}
				e.Live[v] = val // the loop being left defines v: the frame value is the current one
			}
		}
	}
}

// execLoop runs loop L given edges entering its header from outside.
func (x *Exec) execLoop(fr *Frame, L *Loop, in []Edge) ([]Edge, error) {
	// entering L afresh: carried values defined inside L (from an earlier activation of L) are stale
	for i := range in {
		for v := range in[i].Live {
			if ins, ok := v.(ssa.Instruction); ok && ins.Block() != nil && L.Blocks[ins.Block()] {
				delete(in[i].Live, v)
			}
		}
	}
	if lc := x.loopContract(fr, L); lc != nil {
		return x.execLoopInvariant(fr, L, in, lc)
	}
	var allExits []Edge
	edges := in
	for k := 0; ; k++ {
		if len(edges) == 0 {
			break
		}
		if k > 0 {
			var pcs []Term
			for _, e := range edges {
				pcs = append(pcs, e.St.PC)
			}
			if !x.feasible(Or(pcs...)) {
				break
			}
		}
		if k > x.MaxUnroll {
			return nil, unsupported("loop at %s in %s needs an invariant (not finished after %d unrollings)", x.P.RelPos(loopPos(L)), fr.Fn.Name(), x.MaxUnroll)
		}
		exits, backs, err := x.execRegion(fr, L, L.Header, edges)
		if err != nil {
			return nil, err
		}
		allExits = append(allExits, exits...)
		edges = backs
	}
	return allExits, nil
}

func loopPos(L *Loop) token.Pos {
	for _, ins := range L.Header.Instrs {
		if ins.Pos().IsValid() {
			return ins.Pos()
		}
	}
	for b := range L.Blocks {
		for _, ins := range b.Instrs {
			if ins.Pos().IsValid() {
				return ins.Pos()
			}
		}
	}
	return 0
}

// execBlock merges incoming edges, binds phis and executes the block; returns outgoing edges.
func (x *Exec) execBlock(fr *Frame, b *ssa.BasicBlock, in []Edge) ([]Edge, error) {
	carry := map[ssa.Value]Val{}
	out, err := x.execBlock1(fr, b, in, carry)
	if err != nil {
		return nil, err
	}
	// values defined in loops that were exited on the way here travel with the edges (the frame Env only holds
	// the value of the latest iteration)
	if len(carry) > 0 {
		for i := range out {
			out[i].Live = make(map[ssa.Value]Val, len(carry))
			for k, v := range carry {
				out[i].Live[k] = v
			}
		}
	}
	return out, nil
}

func (x *Exec) execBlock1(fr *Frame, b *ssa.BasicBlock, in []Edge, carry map[ssa.Value]Val) ([]Edge, error) {
	var sts []*State
	for _, e := range in {
		sts = append(sts, e.St)
	}
	st := x.mergeStates(sts)
	if st.PC.IsFalse() {
		return nil, nil
	}
	// live values
	if len(in) > 0 {
		liveKeys := map[ssa.Value]bool{}
		for _, e := range in {
			for v := range e.Live {
				liveKeys[v] = true
			}
		}
		for v := range liveKeys {
			var cur Val
			have := false
			for i := len(in) - 1; i >= 0; i-- {
				lv, ok := in[i].Live[v]
				if !ok {
					continue
				}
				if !have {
					cur, have = lv, true
					continue
				}
				m, err := x.mergeVal(in[i].St.PC, lv, cur)
				if err != nil {
					return nil, unsupported("merging live-out %s: %v", v.Name(), err)
				}
				cur = m
			}
			if have {
				fr.Env[v] = x.nameVal(v.Name(), cur)
				carry[v] = fr.Env[v]
			}
		}
	}
	// phis (parallel)
	var phis []*ssa.Phi
	var phiVals []Val
	if x.boundPhis != nil && len(in) == 1 && in[0].From == nil {
		for _, ins := range b.Instrs {
			phi, ok := ins.(*ssa.Phi)
			if !ok {
				break
			}
			phis = append(phis, phi)
			phiVals = append(phiVals, x.boundPhis[phi])
		}
		x.boundPhis = nil
	} else {
		var err error
		phis, phiVals, err = x.phiValues(fr, b, in)
		if err != nil {
			return nil, err
		}
	}
	for i, phi := range phis {
		fr.Env[phi] = phiVals[i]
	}
	// instructions
	for _, ins := range b.Instrs[len(phis):] {
		switch ins := ins.(type) {
		case *ssa.If:
			cv, err := x.valueOf(fr, ins.Cond)
			if err != nil {
				return nil, err
			}
			c := cv.(TV).T
			var out []Edge
			tpc := x.C.Name("pc", And(st.PC, c))
			fpc := x.C.Name("pc", And(st.PC, Not(c)))
			if !tpc.IsFalse() {
				s1 := st.Clone()
				s1.PC = tpc
				out = append(out, Edge{From: b, To: b.Succs[0], St: s1})
			}
			if !fpc.IsFalse() {
				s2 := st.Clone()
				s2.PC = fpc
				out = append(out, Edge{From: b, To: b.Succs[1], St: s2})
			}
			return out, nil
		case *ssa.Jump:
			return []Edge{{From: b, To: b.Succs[0], St: st}}, nil
		case *ssa.Return:
			if err := x.runDefers(fr, st); err != nil {
				return nil, err
			}
			var vals []Val
			for _, r := range ins.Results {
				v, err := x.valueOf(fr, r)
				if err != nil {
					return nil, err
				}
				vals = append(vals, v)
			}
			fr.Rets = append(fr.Rets, RetEdge{St: st, Vals: vals})
			return nil, nil
		case *ssa.Panic:
			x.obligation(fr, ins, "panic", st.PC, TFalse, "explicit panic reachable")
			return nil, nil
		default:
			if err := x.execInstr(fr, st, ins); err != nil {
				if _, ok := err.(*Unsupported); ok {
					return nil, err
				}
				return nil, fmt.Errorf("%s: %s: %w", x.P.RelPos(ins.Pos()), ins, err)
			}
			if st.PC.IsFalse() {
				return nil, nil
			}
		}
	}
	return nil, fmt.Errorf("internal: block without terminator")
}

func predIndex(b, from *ssa.BasicBlock) int {
	for i, p := range b.Preds {
		if p == from {
			return i
		}
	}
	return -1
}

// obligation registers a safety/functional obligation named by kind and source text.
func (x *Exec) obligation(fr *Frame, ins ssa.Instruction, kind string, pc, prop Term, note string) {
	if x.Opts.NoPanicObl {
		return
	}
	pos := ins.Pos()
	if !pos.IsValid() {
		// fall back: nearest instruction with a position in the block
		for _, o := range ins.Block().Instrs {
			if o.Pos().IsValid() {
				pos = o.Pos()
				if o == ins {
					break
				}
			}
		}
	}
	line := x.P.SrcLine(pos)
	if len(line) > 70 {
		line = line[:70]
	}
	fnName := fr.Fn.Name()
	name := fmt.Sprintf("%s%s#%s:%s", fr.Prefix, fnName, kind, line)
	// distinguish several static sites on the same source line by SSA instruction identity
	key := fmt.Sprintf("%s|%p", name, ins)
	ord, ok := x.oblSeen[key]
	if !ok {
		ord = x.srcOrd[name]
		x.srcOrd[name] = ord + 1
		x.oblSeen[key] = ord
	}
	if ord > 0 {
		name = fmt.Sprintf("%s~%d", name, ord)
	}
	x.C.AddObligation(name, ObKind(kind), x.TopName, x.absPC(pc), prop, note+" @"+x.P.RelPos(pos))
}

func (x *Exec) runDefers(fr *Frame, st *State) error {
	for i := len(fr.Defers) - 1; i >= 0; i-- {
		d := fr.Defers[i]
		_, err := x.doCall(fr, st, d.call, nil, d.fnv, d.vals)
		if err != nil {
			return err
		}
	}
	return nil
}

// absPC: path conditions inside an inlined call are kept relative to the call (so that the same callee with the
// same arguments produces the same terms wherever it is called); the absolute condition adds the enclosing ones.
func (x *Exec) absPC(pc Term) Term {
	if len(x.ctxPCs) == 0 {
		return pc
	}
	return And(append(append([]Term{}, x.ctxPCs...), pc)...)
}

func (x *Exec) feasible(pc Term) bool {
	pc = x.absPC(pc)
	if pc.IsFalse() {
		return false
	}
	if pc.IsTrue() {
		return true
	}
	x.feasCalls++
	if x.inc == nil {
		x.inc = NewIncSolver(x.C)
	}
	r := x.inc.CheckSat(pc, 3000)
	return r != "unsat"
}

func (x *Exec) Close() {
	if x.inc != nil {
		x.inc.Close()
	}
}

func describeVal(v Val) string {
	switch v := v.(type) {
	case TV:
		return v.T.S + ":" + v.Typ.String()
	case PtrV:
		var sb strings.Builder
		fmt.Fprintf(&sb, "ptr(%s,%s", v.Region, v.Base.S)
		for _, s := range v.Path {
			if s.IsField {
				fmt.Fprintf(&sb, ".%d", s.Field)
			} else {
				fmt.Fprintf(&sb, "[%s]", s.Index.S)
			}
		}
		sb.WriteString(")")
		return sb.String()
	}
	return fmt.Sprintf("%T", v)
}
