package main

import (
	"fmt"
	"os"
	"go/ast"
	"go/token"
	"go/types"
	"strconv"
	"strings"

	"golang.org/x/tools/go/ssa"
)

type FnResult struct {
	Name        string
	Contract    *FnContract
	Obls        []*Obligation
	Ctx         *Ctx
	Err         error // tool limit / unsupported
	Exec        *Exec
	ParamTerms  []ParamInfo
	ResultTerms []ParamInfo
	FeasCalls   int
}

type ParamInfo struct {
	Name string
	Val  Val
	Typ  types.Type
}

// symbolicParam creates a fresh symbolic value for a parameter.
func (x *Exec) symbolicParam(st *State, name string, t types.Type) Val {
	term := x.C.Fresh("in_"+name, x.C.SortOf(t))
	x.refAssume(st, term, t)
	return x.fromTerm(term, t)
}

func (x *Exec) newEnv(fn *ssa.Function, fr *Frame, fc *FnContract, params []Val, st, old *State) *EvalEnv {
	env := &EvalEnv{X: x, Fn: fn, Fr: fr, Vars: map[string]Val{}, St: st, Old: old, Sigs: x.sigs}
	if fc != nil {
		for k, v := range fc.Consts {
			env.Vars[k] = v
		}
	}
	for i, p := range fn.Params {
		if i < len(params) {
			env.Vars[p.Name()] = params[i]
		}
	}
	res := fn.Signature.Results()
	for i := 0; i < res.Len(); i++ {
		env.ResNames = append(env.ResNames, res.At(i).Name())
	}
	return env
}

// ExpandTable instantiates a table contract: the dispatcher is executed symbolically with each concrete key, and
// the function value it returns gets the template clauses with the key bound to that constant.
func ExpandTable(p *Program, db *ContractDB, fc *FnContract) ([]*FnContract, error) {
	if fc.Fn == nil {
		return nil, fmt.Errorf("dispatcher of %s not found", fc.Name)
	}
	cw, ok := convWidths[fc.KeyType]
	if !ok {
		return nil, fmt.Errorf("%s: unknown key type %s", fc.Name, fc.KeyType)
	}
	var out []*FnContract
	if len(fc.Fn.Params) > 1 {
		// parameter table: the function itself is verified once per key, with its first parameter fixed to the key
		// (a harness that dispatches on it); the key name must be that parameter's name
		for _, k := range fc.Keys {
			inst := *fc
			inst.IsTable = false
			inst.Name = fmt.Sprintf("%s[%s=%d]", FuncDisplayName(fc.Fn), fc.KeyName, k)
			inst.Consts = map[string]Val{fc.KeyName: TV{T: BVInt(k, cw.w), Typ: fc.Fn.Params[0].Type()}}
			out = append(out, &inst)
		}
		return out, nil
	}
	for _, k := range fc.Keys {
		x := NewExec(p, db, fc.Fn)
		st := &State{PC: TTrue, Heap: map[string]Term{}, Brk: BVInt(globalRefLimit, 32)}
		kt := fc.Fn.Params[0].Type()
		res, err := x.CallFunction(fc.Fn, []Val{TV{T: BVInt(k, cw.w), Typ: kt}}, st, "", 0)
		x.Close()
		if err != nil {
			return nil, fmt.Errorf("%s: dispatcher with key %d: %v", fc.Name, k, err)
		}
		fv, ok := res[0].(FuncV)
		if tv, isTV := res[0].(TV); !ok && isTV {
			// an entry read from a table of function values: a constant function id
			if c, isConst := tv.T.Const(); isConst {
				if fn, found := x.C.funcByID[int(c.Int64())].(*ssa.Function); found {
					fv, ok = FuncV{Fn: fn}, true
				}
			}
		}
		if !ok || len(fv.Bindings) != 0 {
			return nil, fmt.Errorf("%s: dispatcher with key %d does not return a plain function (got %T)", fc.Name, k, res[0])
		}
		inst := *fc
		inst.IsTable = false
		inst.Fn = fv.Fn
		inst.Name = fmt.Sprintf("%s[%s=%d]", FuncDisplayName(fv.Fn), fc.KeyName, k)
		inst.Consts = map[string]Val{fc.KeyName: TV{T: BVInt(k, cw.w), Typ: kt}}
		out = append(out, &inst)
	}
	return out, nil
}

// VerifyFunction generates all obligations of fn under its contract fc.
// VerifyFunction generates the obligations of one function under contract. Heap regions are discovered lazily while the
// body is executed; when a whole-heap frame condition (frame_only) was evaluated before all regions were known, the
// function is executed again with the full region set known from the start.
func VerifyFunction(p *Program, db *ContractDB, fc *FnContract) *FnResult {
	var pre map[string]Sort
	var preTypes map[string]types.Type
	for pass := 0; ; pass++ {
		res := verifyFunctionPass(p, db, fc, pre, preTypes)
		x := res.Exec
		if os.Getenv("GOVC_DEBUG") != "" && x != nil {
			fmt.Fprintf(os.Stderr, "pass %d of %s: %d regions, %d frame evaluations, fewest regions at a frame evaluation %d\n", pass, fc.Name, len(x.regionSort), x.frameEvals, x.minRegionsAtFrame)
		}
		if x == nil || pass >= 2 || x.frameEvals == 0 || len(x.regionSort) <= x.minRegionsAtFrame {
			return res
		}
		pre = map[string]Sort{}
		for r, s := range x.regionSort {
			pre[r] = s
		}
		preTypes = x.regionTypes
	}
}

func verifyFunctionPass(p *Program, db *ContractDB, fc *FnContract, preRegions map[string]Sort, preTypes map[string]types.Type) (res *FnResult) {
	res = &FnResult{Name: fc.Name, Contract: fc}
	fn := fc.Fn
	if fn == nil {
		res.Err = fmt.Errorf("function %s not found in the source tree", fc.Name)
		return res
	}
	x := NewExec(p, db, fn)
	for _, t := range preTypes {
		x.C.SortOf(t) // declare the sorts of the regions known from the previous pass before anything mentions them
	}
	for r, s := range preRegions {
		x.regionSort[r] = s
	}
	res.Exec = x
	res.Ctx = x.C
	defer func() {
		if r := recover(); r != nil {
			res.Err = fmt.Errorf("internal error while executing %s: %v", fc.Name, r)
		}
		x.Close()
		res.Obls = x.C.obls
		res.FeasCalls = x.feasCalls
	}()
	if len(fc.Specs) > 0 {
		txt, sigs, err := ReadSpecs(fc.Specs)
		if err != nil {
			res.Err = err
			return res
		}
		x.C.specPrelude = txt
		x.sigs = sigs
	}
	if v := fc.Opts["unroll"]; v != "" {
		x.MaxUnroll, _ = strconv.Atoi(v)
	}
	if v := fc.Opts["slow"]; v != "" {
		x.C.timeoutFactor, _ = strconv.ParseFloat(v, 64)
	}
	st := &State{PC: TTrue, Heap: map[string]Term{}}
	st.Brk = x.C.Fresh("brk0", SRef)
	x.C.brk0 = st.Brk.S
	x.C.Assume(And(bvCmp("bvuge", st.Brk, BVInt(globalRefLimit, 32)), bvCmp("bvult", st.Brk, BVUint(0x7fffffff, 32))), "initial allocator position")
	var params []Val
	for _, prm := range fn.Params {
		var v Val
		if c, fixed := fc.Consts[prm.Name()]; fixed && fn.Name() != "" {
			v = c // parameter table: this parameter is the instantiated key
		} else {
			v = x.symbolicParam(st, prm.Name(), prm.Type())
		}
		params = append(params, v)
		res.ParamTerms = append(res.ParamTerms, ParamInfo{Name: prm.Name(), Val: v, Typ: prm.Type()})
	}
	for _, fv := range fn.FreeVars {
		_ = fv
		res.Err = unsupported("closure %s verified directly", fc.Name)
		return res
	}
	x.topContract, x.topArgs = fc, params
	if v := fc.Opts["alloc"]; v != "" {
		cl, err := parseClause(v)
		if err != nil {
			res.Err = fmt.Errorf("%s: opt alloc: %v", fc.Name, err)
			return res
		}
		x.allocBound = &cl
	}
	pre := st.Clone()
	env := x.newEnv(fn, nil, fc, params, st, pre)
	// universally quantified ghost integers: fresh unconstrained constants
	for _, g := range fc.Ghosts {
		cw, ok := convWidths[g[1]]
		if !ok {
			res.Err = fmt.Errorf("%s: ghost %s: unknown integer type %s", fc.Name, g[0], g[1])
			return res
		}
		var typ types.Type = &WideInt{Bits: cw.w, Signed: cw.s}
		if obj := types.Universe.Lookup(g[1]); obj != nil {
			typ = obj.Type()
		}
		env.Vars[g[0]] = TV{T: x.C.Fresh("ghost_"+g[0], SBV(cw.w)), Typ: typ}
	}
	// ghost lets
	for _, l := range fc.Lets {
		v, err := env.Eval(l.Expr)
		if err != nil {
			res.Err = fmt.Errorf("%s: let %s: %v", fc.Name, l.Label, err)
			return res
		}
		env.Vars[l.Label] = v
	}
	x.topGhosts = map[string]Val{}
	for _, g := range fc.Ghosts {
		x.topGhosts[g[0]] = env.Vars[g[0]]
	}
	for _, l := range fc.Lets {
		x.topGhosts[l.Label] = env.Vars[l.Label]
	}
	var reqs []Term
	for _, r := range fc.Requires {
		t, err := env.Bool(r.Expr)
		if err != nil {
			res.Err = fmt.Errorf("%s: requires %s: %v", fc.Name, r.Label, err)
			return res
		}
		reqs = append(reqs, t)
		x.C.Assume(t, "requires "+r.Label)
	}
	x.C.AddCover(fc.Name+"#cover:requires", fc.Name, TTrue)

	fr := buildFrame(fn)
	fr.Contract = fc
	fr.Args = params
	fr.Pre = pre
	for i, prm := range fn.Params {
		fr.Env[prm] = params[i]
	}
	x.stack = append(x.stack, fn)
	if err := x.runFrame(fr, st); err != nil {
		res.Err = err
		return res
	}
	results, err := x.finishFrame(fr, st)
	if err != nil {
		res.Err = err
		return res
	}
	for i, r := range results {
		res.ResultTerms = append(res.ResultTerms, ParamInfo{Name: fmt.Sprintf("result%d", i), Val: r, Typ: fn.Signature.Results().At(i).Type()})
	}
	if len(fr.Rets) > 0 {
		if fc.Opts["skipcover"] != "" {
			x.C.Note("cover:returns not checked (opt skipcover): reachability of the return under the loop invariants is not confirmed by a model; cover:requires and every inv-init are")
		} else {
			x.C.AddCover(fc.Name+"#cover:returns", fc.Name, st.PC)
		}
	}
	// postconditions
	env2 := x.newEnv(fn, fr, fc, params, st, pre)
	for k, v := range env.Vars {
		env2.Vars[k] = v
	}
	env2.Results = results
	var caseTerm Term
	if fc.Cases != nil {
		cv, err := env2.intArg(fc.Cases.Expr, 64)
		if err != nil {
			res.Err = fmt.Errorf("%s: cases: %v", fc.Name, err)
			return res
		}
		caseTerm = x.C.Name("case", cv)
		inRange := And(bvCmp("bvsle", BVInt(int64(fc.CaseLo), 64), caseTerm), bvCmp("bvsle", caseTerm, BVInt(int64(fc.CaseHi), 64)))
		x.C.AddObligation(fc.Name+"#cases-exhaustive", "post", fc.Name, st.PC, inRange, "case split "+fc.Cases.Text+" covers every value")
	}
	for _, en := range fc.Ensures {
		t, err := env2.Bool(en.Expr)
		if err != nil {
			res.Err = fmt.Errorf("%s: ensures %s: %v", fc.Name, en.Label, err)
			return res
		}
		t = x.C.Name("post", t)
		var o *Obligation
		cs, ct, lo, hi := fc.Cases, caseTerm, fc.CaseLo, fc.CaseHi
		if en.Cases != nil {
			cv, err := env2.intArg(en.Cases.Expr, 64)
			if err != nil {
				res.Err = fmt.Errorf("%s: ensures %s: cases: %v", fc.Name, en.Label, err)
				return res
			}
			cs, ct, lo, hi = en.Cases, x.C.Name("case", cv), en.CaseLo, en.CaseHi
			inRange := And(bvCmp("bvsle", BVInt(int64(lo), 64), ct), bvCmp("bvsle", ct, BVInt(int64(hi), 64)))
			// the remaining values are one more instance of the same obligation (dropped when the incremental
			// solver already refutes that any value lies outside the range)
			if x.feasible(And(st.PC, Not(inRange))) {
				x.C.AddObligation(fc.Name+"#post:"+en.Label, "post", fc.Name, And(st.PC, Not(inRange)), t, en.Text+" [case: outside the split range]")
			}
		}
		if cs != nil {
			for k := lo; k <= hi; k++ {
				o = x.C.AddObligation(fc.Name+"#post:"+en.Label, "post", fc.Name, And(st.PC, Eq(ct, BVInt(int64(k), 64))), t, fmt.Sprintf("%s [case %s == %d]", en.Text, cs.Text, k))
			}
		} else {
			o = x.C.AddObligation(fc.Name+"#post:"+en.Label, "post", fc.Name, st.PC, t, en.Text)
		}
		o.Detail = en.Text
	}
	// the declared frame (assigns clauses) is what call sites havoc; it must cover everything the body changes
	if !fc.AssignsAll && fc.Opts["noframe"] == "" && (len(fc.Ensures) > 0 || len(fc.Assigns) > 0) {
		call := &ast.CallExpr{Fun: ast.NewIdent("frame_only")}
		for _, a := range fc.Assigns {
			if strings.HasSuffix(strings.TrimSpace(a.Text), "[*]") {
				call.Args = append(call.Args, &ast.CallExpr{Fun: ast.NewIdent("elems"), Args: []ast.Expr{a.Expr}})
				continue
			}
			call.Args = append(call.Args, a.Expr)
		}
		t, err := env2.Bool(call)
		if err != nil {
			res.Err = fmt.Errorf("%s: assigns frame: %v", fc.Name, err)
			return res
		}
		note := "nothing outside the declared assigns clauses changes"
		if x.oldWrites == 0 {
			// every store of the execution went through a reference that is syntactically brk0+k: only objects
			// allocated by the function itself were written, so the entry heap is untouched
			t = TTrue
			note += " (syntactic: every store targets an object allocated by the function itself)"
		}
		var o *Obligation
		if x.oldWrites != 0 && len(env2.LastFrame) > 1 {
			// one solver query per heap region
			for k, cj := range env2.LastFrame {
				if k < len(env2.LastFrameRegions) && x.regionClean(env2.LastFrameRegions[k]) {
					// syntactic: every store into this region went to an object allocated by the function itself
					cj = TTrue
				}
				o = x.C.AddObligation(fc.Name+"#post:assigns-frame", "frame", fc.Name, st.PC, x.C.Name("frame", cj), note)
			}
		} else {
			o = x.C.AddObligation(fc.Name+"#post:assigns-frame", "frame", fc.Name, st.PC, x.C.Name("frame", t), note)
		}
		o.Detail = "assigns frame"
	}
	// size hints for replayable models: small slices
	var hints strings.Builder
	n0 := len(x.C.decls)
	x.C.queries = x.modelQueries(res.ParamTerms, nil)
	for _, q := range x.C.queries {
		if strings.HasSuffix(q.Label, ".len") {
			fmt.Fprintf(&hints, "(assert (bvule %s #x0000000000000020))\n", q.T.S)
		} else if strings.HasSuffix(q.Label, ".cap") {
			fmt.Fprintf(&hints, "(assert (bvule %s #x0000000000000028))\n", q.T.S)
		}
	}
	x.C.sizeHints = hints.String()
	// second preference: pointers/maps nested inside the arguments are nil (fully reconstructible inputs)
	var nh strings.Builder
	for _, q := range x.C.queries {
		if strings.HasSuffix(q.Label, ".ref") && strings.HasPrefix(q.Label, "*") {
			fmt.Fprintf(&nh, "(assert (= %s #x00000000))\n", q.T.S)
		}
	}
	x.C.nilHints = nh.String()
	x.C.queries = append(x.C.queries, x.modelQueries(nil, res.ResultTerms)...)
	x.C.queries = append(x.C.queries, x.postQueries(res.ParamTerms, st)...)
	x.C.lateDecls = append([]string{}, x.C.decls[n0:]...)
	x.C.decls = x.C.decls[:n0]
	return res
}

// applyContract: modular call — check requires, havoc assigns, assume ensures.
func (x *Exec) applyContract(fr *Frame, st *State, fn *ssa.Function, fc *FnContract, args []Val, site ssa.Instruction) ([]Val, error) {
	if len(fc.Specs) > 0 {
		// callee spec files must be part of the prelude
		txt, sigs, err := ReadSpecs(append(append([]string{}, x.specFiles...), fc.Specs...))
		if err != nil {
			return nil, err
		}
		x.C.specPrelude = txt
		for k, v := range sigs {
			if x.sigs == nil {
				x.sigs = map[string]SpecSig{}
			}
			x.sigs[k] = v
		}
	}
	pre := st.Clone()
	env := x.newEnv(fn, nil, fc, args, st, pre)
	for _, g := range fc.Ghosts {
		// at a call site a ghost-quantified clause is assumed for one arbitrary instance only (weaker, hence sound)
		if cw, ok := convWidths[g[1]]; ok {
			var typ types.Type = &WideInt{Bits: cw.w, Signed: cw.s}
			if obj := types.Universe.Lookup(g[1]); obj != nil {
				typ = obj.Type()
			}
			env.Vars[g[0]] = TV{T: x.C.Fresh("ghost_"+g[0], SBV(cw.w)), Typ: typ}
		}
	}
	for _, l := range fc.Lets {
		v, err := env.Eval(l.Expr)
		if err != nil {
			return nil, fmt.Errorf("contract of %s: let %s: %v", fc.Name, l.Label, err)
		}
		env.Vars[l.Label] = v
	}
	for _, r := range fc.Requires {
		t, err := env.Bool(r.Expr)
		if err != nil {
			return nil, fmt.Errorf("contract of %s: requires %s: %v", fc.Name, r.Label, err)
		}
		if site != nil {
			x.obligation(fr, site, "pre", st.PC, t, "precondition "+r.Label+" of "+fc.Name+": "+r.Text)
		}
		x.C.Assume(Implies(x.absPC(st.PC),t), "callee precondition established")
	}
	x.C.trusted["contract of "+fc.Name+" (checked separately)"] = true
	// frame
	if fc.AssignsAll {
		x.havocHeapAtCall(st, "call "+fc.Name)
	} else {
		for _, a := range fc.Assigns {
			if err := x.havocLValue(env, st, a); err != nil {
				return nil, fmt.Errorf("contract of %s: assigns %s: %v", fc.Name, a.Text, err)
			}
		}
		if fc.Opts["countcalls"] != "" {
			// the callee advances the ghost counter of calls through function values: its ensures say by how much
			x.regionSort[dynCallsRegion] = SArr(SRef, SIdx)
			st.Heap[dynCallsRegion] = x.C.Fresh("lh_dyncalls", SArr(SRef, SIdx))
		}
		// allocation may happen in callee
		nb := x.C.Fresh("brk", SRef)
		x.C.Assume(bvCmp("bvuge", nb, st.Brk), "allocator monotone across call")
		x.C.NoteRefGE(nb.S, st.Brk.S)
		st.Brk = nb
	}
	results := x.havocResults(st, fn.Signature, fn.Name())
	env.Results = results
	env.St = st
	for _, en := range fc.Ensures {
		t, err := env.Bool(en.Expr)
		if err != nil {
			return nil, fmt.Errorf("contract of %s: ensures %s: %v", fc.Name, en.Label, err)
		}
		x.C.Assume(Implies(x.absPC(st.PC),t), "ensures "+en.Label+" of "+fc.Name)
	}
	return results, nil
}

// havocLValue: assigns clause. Forms: `*p`, `p.f`, `p.f[i]`, `s[*]` (all elements of slice s), `heap(T)`.
func (x *Exec) havocLValue(env *EvalEnv, st *State, cl Clause) error {
	txt := strings.TrimSpace(cl.Text)
	if strings.HasSuffix(txt, "[*]") {
		v, err := env.Eval(cl.Expr)
		if err != nil {
			return err
		}
		tv, ok := v.(TV)
		if !ok || tv.T.Sort != SSlice {
			return fmt.Errorf("[*] needs a slice")
		}
		elem := tv.Typ.Underlying().(*types.Slice).Elem()
		r, hs := x.elemRegion(elem)
		h := x.heapGet(st, r, hs)
		fresh := x.C.Fresh("hv_elems", SArr(SIdx, x.C.SortOf(elem)))
		// the whole backing array may change (same meaning as elems(s) in frame_only); ensures clauses say more
		x.noteWrite(SlBase(tv.T), r)
		x.heapSet(st, r, Ite(Eq(SlBase(tv.T), BVInt(0, 32)), h, Store(h, SlBase(tv.T), fresh)))
		return nil
	}
	lv, err := x.evalLValue(env, cl.Expr)
	if err != nil {
		return err
	}
	elemT := lv.Typ.Underlying().(*types.Pointer).Elem()
	fresh := x.freshVal(st, "hv", elemT)
	return x.Store(st, lv, fresh)
}

// evalLValue evaluates an expression denoting a location to a pointer.
func (x *Exec) evalLValue(env *EvalEnv, e interface{}) (PtrV, error) {
	switch e := e.(type) {
	case *astStar:
		_ = e
	}
	return evalLValueAST(env, e)
}

type astStar struct{}

func (x *Exec) loopContract(fr *Frame, L *Loop) *LoopContract {
	if fr.Contract == nil {
		// inlined callee: look up its own contract for loop annotations
		if fc := x.DB.For(fr.Fn); fc != nil {
			return matchLoop(fr, L, fc)
		}
		// helper without its own contract: the default invariant of the function under verification applies
		if x.topContract != nil && x.topContract.Opts["loopinv"] != "" {
			return matchLoop(fr, L, &FnContract{Opts: map[string]string{"loopinv": x.topContract.Opts["loopinv"]}})
		}
		return nil
	}
	return matchLoop(fr, L, fr.Contract)
}

func matchLoop(fr *Frame, L *Loop, fc *FnContract) *LoopContract {
	if lc := matchLoop1(fr, L, fc); lc != nil {
		return lc
	}
	// default invariant for every loop without its own clause: `opt loopinv=<expr>`
	if txt := fc.Opts["loopinv"]; txt != "" {
		cl, err := parseClause(txt)
		if err == nil {
			cl.Label = "default"
			invs := []Clause{cl}
			// canonical counted loops `for i := c; ...; i++` over a signed counter: the counter never drops below
			// its start value (a candidate like any other invariant: it is checked, not assumed)
			for _, ins := range L.Header.Instrs {
				phi, ok := ins.(*ssa.Phi)
				if !ok {
					break
				}
				_, signed, isInt := isInteger(phi.Type())
				if !isInt || !signed || phi.Comment == "" || len(phi.Edges) != 2 {
					continue
				}
				for k := 0; k < 2; k++ {
					c, ok1 := phi.Edges[k].(*ssa.Const)
					b, ok2 := phi.Edges[1-k].(*ssa.BinOp)
					if !ok1 || !ok2 || b.Op != token.ADD || b.X != ssa.Value(phi) || c.Value == nil {
						continue
					}
					if step, ok := b.Y.(*ssa.Const); !ok || step.Value == nil || step.Int64() < 0 {
						continue
					}
					if ccl, err := parseClause(fmt.Sprintf("%s >= %d", phi.Comment, c.Int64())); err == nil {
						ccl.Label = "default"
						invs = append(invs, ccl)
					}
					// range loops test `index+1 < n` in the header: the index stays below n (no wrap of index+1)
					if phi.Comment == "rangeindex" {
						for _, hi := range L.Header.Instrs {
							cmp, ok := hi.(*ssa.BinOp)
							if !ok || cmp.Op != token.LSS || cmp.X != ssa.Value(b) {
								continue
							}
							bound := ""
							switch y := cmp.Y.(type) {
							case *ssa.Const:
								if y.Value != nil {
									bound = fmt.Sprint(y.Int64())
								}
							default:
								if y.Name() != "" {
									bound = "__ssa_" + y.Name()
								}
							}
							if bound != "" {
								if ccl, err := parseClause(fmt.Sprintf("%s < %s || %s == -1", phi.Comment, bound, phi.Comment)); err == nil {
									ccl.Label = "default"
									invs = append(invs, ccl)
								}
							}
						}
					}
				}
			}
			return &LoopContract{Key: fmt.Sprintf("#%d(default)", L.Ordinal), Invariants: invs}
		}
	}
	return nil
}

func matchLoop1(fr *Frame, L *Loop, fc *FnContract) *LoopContract {
	// keys: "<phi var name>#<k>" — k-th loop (in header order) whose header has a phi for that variable; or "#<ordinal>"
	for _, lc := range fc.Loops {
		if len(lc.Invariants) == 0 && lc.Unroll == 0 {
			continue
		}
		key := lc.Key
		if strings.HasPrefix(key, "#") {
			if n, err := strconv.Atoi(key[1:]); err == nil && n == L.Ordinal {
				return lc
			}
			continue
		}
		parts := strings.SplitN(key, "#", 2)
		want := 0
		if len(parts) == 2 {
			want, _ = strconv.Atoi(parts[1])
		}
		cnt := 0
		for _, l2 := range fr.Loops {
			if loopHasVar(l2, parts[0]) {
				if l2 == L && cnt == want {
					return lc
				}
				cnt++
			}
		}
	}
	return nil
}

func loopHasVar(L *Loop, name string) bool {
	for _, ins := range L.Header.Instrs {
		phi, ok := ins.(*ssa.Phi)
		if !ok {
			break
		}
		if phi.Comment == name {
			return true
		}
	}
	return false
}
