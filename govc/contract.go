package main

import (
	"fmt"
	"go/ast"
	"go/parser"
	"os"
	"path/filepath"
	"regexp"
	"strconv"
	"strings"

	"golang.org/x/tools/go/packages"
	"golang.org/x/tools/go/ssa"
)

type Clause struct {
	Label string
	Text  string
	Expr  ast.Expr
	Props []string // optional per-clause property tags
	Cases *Clause  // optional clause-level case split
	CaseLo, CaseHi int
}

type LoopContract struct {
	Key        string // "<var>#<ordinal>" or "#<ordinal>"
	Invariants []Clause
	Decreases  *Clause
	Unroll     int
	Modifies   []string
}

type FnContract struct {
	Name     string // display name, e.g. "PVM.ReadUintVariable"
	Fn       *ssa.Function
	Props    []string
	Specs    []string
	Requires []Clause
	Ensures  []Clause
	Assigns  []Clause
	AssignsAll bool
	Loops    []*LoopContract
	Opts     map[string]string
	File     string
	Trusted  bool // contract is assumed at call sites but the body is not verified (listed as assumption)
	NoBody   bool
	Lets     []Clause // let name = expr (ghost bindings evaluated at entry)
	IsTable  bool   // table contract: Fn is a dispatcher; clauses are a template for the function it returns for each key
	KeyName  string // name of the key variable in the template
	KeyType  string
	Keys     []int64
	QuickKeys []int64 // subset of Keys for the quick tier
	Consts   map[string]Val // extra constant bindings (instantiated table key)
	Ghosts   [][2]string // ghost name type: universally quantified ghost integers (fresh symbolic constants)
	Cases    *Clause  // cases <expr> lo..hi : every post obligation is split into one query per value of expr
	CaseLo, CaseHi int
}

func (fc *FnContract) HasSpec() bool {
	return len(fc.Requires) > 0 || len(fc.Ensures) > 0 || len(fc.Assigns) > 0 || fc.AssignsAll || fc.Trusted
}

func (fc *FnContract) HasProp(p string) bool {
	for _, q := range fc.Props {
		if q == p {
			return true
		}
	}
	return false
}

type Pred struct {
	Name   string
	Params []string
	Body   Clause
}

type ContractDB struct {
	ReadOnly map[string]bool // "pkgpath.Var" declared read-only
	Stable   map[string]bool // "pkgpath.Var" declared stable
	Preds  map[string]*Pred
	ByName map[string]*FnContract
	byFn   map[*ssa.Function]*FnContract
	Order  []*FnContract
	Errors []string
}

func (db *ContractDB) For(fn *ssa.Function) *FnContract {
	if db == nil {
		return nil
	}
	if fc := db.byFn[fn]; fc != nil {
		return fc
	}
	if o := fn.Origin(); o != nil {
		return db.byFn[o]
	}
	return nil
}


// desugar rewrites `A ==> B` (lowest precedence, right associative) into implies(A, B), recursively inside brackets.
func desugar(s string) string {
	var out strings.Builder
	depth := 0
	start := 0
	for i := 0; i < len(s); i++ {
		c := s[i]
		switch {
		case c == '(' || c == '[':
			if depth == 0 {
				start = i
			}
			depth++
		case c == ')' || c == ']':
			depth--
			if depth == 0 {
				out.WriteByte(s[start])
				out.WriteString(desugarArgs(s[start+1 : i]))
				out.WriteByte(c)
			}
		default:
			if depth == 0 {
				out.WriteByte(c)
			}
		}
	}
	return desugarTop(out.String())
}

// desugarArgs handles comma separated lists at top level
func desugarArgs(s string) string {
	parts := splitTop(s, ',')
	for i, p := range parts {
		parts[i] = desugar(p)
	}
	return strings.Join(parts, ",")
}

func splitTop(s string, sep byte) []string {
	var parts []string
	depth := 0
	last := 0
	for i := 0; i < len(s); i++ {
		switch s[i] {
		case '(', '[', '{':
			depth++
		case ')', ']', '}':
			depth--
		default:
			if s[i] == sep && depth == 0 {
				parts = append(parts, s[last:i])
				last = i + 1
			}
		}
	}
	parts = append(parts, s[last:])
	return parts
}

func desugarTop(s string) string {
	depth := 0
	for i := 0; i+2 < len(s); i++ {
		switch s[i] {
		case '(', '[', '{':
			depth++
		case ')', ']', '}':
			depth--
		}
		if depth == 0 && s[i] == '=' && s[i+1] == '=' && s[i+2] == '>' {
			return "implies(" + strings.TrimSpace(s[:i]) + ", " + desugarTop(strings.TrimSpace(s[i+3:])) + ")"
		}
	}
	return s
}

func parseClause(text string) (Clause, error) {
	text = strings.TrimSpace(text)
	cl := Clause{Text: text}
	// optional label "name: expr" (name is an identifier, not followed by another colon)
	if m := regexp.MustCompile(`^([A-Za-z_][A-Za-z0-9_\-]*)\s*:\s+(.*)$`).FindStringSubmatch(text); m != nil {
		cl.Label = m[1]
		text = m[2]
		cl.Text = text
	}
	e, err := parser.ParseExpr(desugar(text))
	if err != nil {
		return cl, fmt.Errorf("cannot parse %q: %v", text, err)
	}
	cl.Expr = e
	return cl, nil
}

var keywords = map[string]bool{"quickkeys": true, "func": true, "props": true, "spec": true, "requires": true, "ensures": true, "assigns": true, "loop": true,
	"invariant": true, "decreases": true, "unroll": true, "opt": true, "trusted": true, "let": true, "modifies": true, "ghost": true, "cases": true, "table": true, "key": true, "pred": true, "readonly": true, "stable": true}

// LoadContracts parses every verif_contracts*.go file of the loaded module packages.
func LoadContracts(p *Program) *ContractDB {
	db := &ContractDB{ByName: map[string]*FnContract{}, byFn: map[*ssa.Function]*FnContract{}}
	packages.Visit(p.Pkgs, nil, func(pk *packages.Package) {
		if !strings.HasPrefix(pk.PkgPath, modPath) {
			return
		}
		for i, f := range pk.Syntax {
			if i >= len(pk.CompiledGoFiles) {
				continue
			}
			fname := pk.CompiledGoFiles[i]
			if !strings.HasPrefix(filepath.Base(fname), "verif_contracts") {
				continue
			}
			var lines []string
			for _, cg := range f.Comments {
				for _, c := range cg.List {
					if strings.HasPrefix(c.Text, "//@") {
						lines = append(lines, c.Text[3:])
					}
				}
			}
			db.parseLines(p, pk.PkgPath, fname, lines)
		}
	})
	return db
}

func (db *ContractDB) errf(format string, args ...interface{}) {
	db.Errors = append(db.Errors, fmt.Sprintf(format, args...))
}

func (db *ContractDB) parseLines(p *Program, pkgPath, file string, lines []string) {
	rel := strings.TrimPrefix(pkgPath, modPath+"/")
	var cur *FnContract
	var curLoop *LoopContract
	// merge continuation lines
	type item struct{ kw, rest string }
	var items []item
	for _, ln := range lines {
		t := strings.TrimSpace(ln)
		if t == "" {
			continue
		}
		fields := strings.SplitN(t, " ", 2)
		kw := fields[0]
		if keywords[kw] {
			rest := ""
			if len(fields) > 1 {
				rest = strings.TrimSpace(fields[1])
			}
			items = append(items, item{kw, rest})
		} else if len(items) > 0 {
			items[len(items)-1].rest += " " + t
		}
	}
	for _, it := range items {
		switch it.kw {
		case "func":
			// `func F` is the contract of F (used at call sites); `func F {label}` is a further, independently
			// verified variant of it (e.g. a bounded stand-in without loop invariants) that call sites never use
			rest, variant := it.rest, ""
			if i := strings.Index(rest, "{"); i > 0 && strings.HasSuffix(strings.TrimSpace(rest), "}") {
				variant = strings.TrimSpace(rest[i:])
				rest = strings.TrimSpace(rest[:i])
			}
			name := rel + "." + rest
			fn := p.FindFunc(name)
			cur = &FnContract{Name: name + variant, Fn: fn, Opts: map[string]string{}, File: file}
			curLoop = nil
			if fn == nil {
				db.errf("%s: contract for unknown function %s", file, name)
				// keep it: a missing function under contract is a failure reported by the property check
			} else if variant == "" {
				db.byFn[fn] = cur
			}
			db.ByName[name+variant] = cur
			db.Order = append(db.Order, cur)
		case "stable":
			// stable <package-level variable>...: not written while functions under contract run (keeps its value across havoc)
			if db.Stable == nil {
				db.Stable = map[string]bool{}
			}
			for _, n := range strings.Fields(it.rest) {
				db.Stable[pkgPath+"."+n] = true
			}
		case "readonly":
			// readonly <package-level variable>: assumed never written after initialisation (listed as an assumption)
			if db.ReadOnly == nil {
				db.ReadOnly = map[string]bool{}
			}
			for _, n := range strings.Fields(it.rest) {
				db.ReadOnly[pkgPath+"."+n] = true
			}
		case "pred":
			// pred name(a, b, c) = expr      (package-level contract macro)
			eq := strings.Index(it.rest, "=")
			lp := strings.Index(it.rest, "(")
			rp := strings.Index(it.rest, ")")
			if eq < 0 || lp < 0 || rp < lp || rp > eq {
				db.errf("%s: bad pred %q", file, it.rest)
				continue
			}
			pname := strings.TrimSpace(it.rest[:lp])
			var params []string
			for _, a := range strings.Split(it.rest[lp+1:rp], ",") {
				if a = strings.TrimSpace(a); a != "" {
					params = append(params, a)
				}
			}
			cl, err := parseClause(strings.TrimSpace(it.rest[eq+1:]))
			if err != nil {
				db.errf("%s: pred %s: %v", file, pname, err)
				continue
			}
			if db.Preds == nil {
				db.Preds = map[string]*Pred{}
			}
			db.Preds[rel+"."+pname] = &Pred{Name: pname, Params: params, Body: cl}
		case "table":
			// table <dispatcher> <label>
			f := strings.Fields(it.rest)
			if len(f) != 2 {
				db.errf("%s: table needs '<dispatcher> <label>'", file)
				continue
			}
			name := rel + "." + f[0] + "@" + f[1]
			fn := p.FindFunc(rel + "." + f[0])
			cur = &FnContract{Name: name, Fn: fn, Opts: map[string]string{}, File: file, IsTable: true}
			curLoop = nil
			if fn == nil {
				db.errf("%s: table contract for unknown dispatcher %s", file, f[0])
			}
			db.ByName[name] = cur
			db.Order = append(db.Order, cur)
		case "key":
			// key <name> <type> <ranges: a,b..c,...>
			if cur != nil {
				f := strings.Fields(it.rest)
				if len(f) < 3 {
					db.errf("%s: %s: bad key clause", file, cur.Name)
					continue
				}
				cur.KeyName, cur.KeyType = f[0], f[1]
				for _, part := range strings.Split(strings.Join(f[2:], ""), ",") {
					if part == "" {
						continue
					}
					r := strings.SplitN(part, "..", 2)
					lo, err1 := strconv.ParseInt(r[0], 0, 64)
					hi := lo
					var err2 error
					if len(r) == 2 {
						hi, err2 = strconv.ParseInt(r[1], 0, 64)
					}
					if err1 != nil || err2 != nil {
						db.errf("%s: %s: bad key range %q", file, cur.Name, part)
						continue
					}
					for k := lo; k <= hi; k++ {
						cur.Keys = append(cur.Keys, k)
					}
				}
			}
		case "quickkeys":
			// quickkeys <a,b..c,...>: the subset of a table's keys verified by the quick tier (thorough: all keys)
			if cur != nil {
				for _, part := range strings.Split(strings.Join(strings.Fields(it.rest), ""), ",") {
					if part == "" {
						continue
					}
					r := strings.SplitN(part, "..", 2)
					lo, err1 := strconv.ParseInt(r[0], 0, 64)
					hi := lo
					var err2 error
					if len(r) == 2 {
						hi, err2 = strconv.ParseInt(r[1], 0, 64)
					}
					if err1 != nil || err2 != nil {
						db.errf("%s: %s: bad quickkeys range %q", file, cur.Name, part)
						continue
					}
					for k := lo; k <= hi; k++ {
						cur.QuickKeys = append(cur.QuickKeys, k)
					}
				}
			}
		case "props":
			if cur != nil {
				cur.Props = append(cur.Props, strings.Fields(it.rest)...)
			}
		case "spec":
			if cur != nil {
				cur.Specs = append(cur.Specs, strings.Fields(it.rest)...)
			}
		case "trusted":
			if cur != nil {
				cur.Trusted = true
			}
		case "ghost":
			if cur != nil {
				f := strings.Fields(it.rest)
				if len(f) == 2 {
					cur.Ghosts = append(cur.Ghosts, [2]string{f[0], f[1]})
				} else {
					db.errf("%s: %s: bad ghost clause", file, cur.Name)
				}
			}
		case "cases":
			if cur != nil {
				// cases <expr> lo..hi
				i := strings.LastIndex(it.rest, " ")
				if i < 0 {
					db.errf("%s: %s: bad cases clause", file, cur.Name)
					continue
				}
				rng := strings.SplitN(strings.TrimSpace(it.rest[i+1:]), "..", 2)
				cl, err := parseClause(it.rest[:i])
				if err != nil || len(rng) != 2 {
					db.errf("%s: %s: bad cases clause: %v", file, cur.Name, err)
					continue
				}
				cur.Cases = &cl
				cur.CaseLo, _ = strconv.Atoi(rng[0])
				cur.CaseHi, _ = strconv.Atoi(rng[1])
			}
		case "opt":
			if cur != nil {
				kv := strings.SplitN(it.rest, "=", 2)
				if len(kv) == 2 {
					cur.Opts[strings.TrimSpace(kv[0])] = strings.TrimSpace(kv[1])
				} else {
					cur.Opts[strings.TrimSpace(it.rest)] = "true"
				}
			}
		case "requires", "ensures", "invariant", "decreases", "let":
			if cur == nil {
				continue
			}
			text := it.rest
			var props []string
			// optional property tags: "[C01 C03] expr"
			var clCases *Clause
			var clLo, clHi int
			if strings.HasPrefix(text, "[") {
				end := strings.Index(text, "]")
				inner := strings.TrimSpace(text[1:end])
				text = strings.TrimSpace(text[end+1:])
				if strings.HasPrefix(inner, "cases ") {
					// [cases <expr> lo..hi]
					inner = strings.TrimSpace(inner[6:])
					i := strings.LastIndex(inner, " ")
					if i > 0 {
						rng := strings.SplitN(strings.TrimSpace(inner[i+1:]), "..", 2)
						cc, err := parseClause(inner[:i])
						if err == nil && len(rng) == 2 {
							clCases = &cc
							clLo, _ = strconv.Atoi(rng[0])
							clHi, _ = strconv.Atoi(rng[1])
						} else {
							db.errf("%s: %s: bad clause-level cases: %v", file, cur.Name, err)
						}
					}
				} else {
					props = strings.Fields(inner)
				}
			}
			var cl Clause
			var err error
			if it.kw == "let" {
				kv := strings.SplitN(text, "=", 2)
				if len(kv) != 2 {
					db.errf("%s: %s: bad let", file, cur.Name)
					continue
				}
				cl, err = parseClause(strings.TrimSpace(kv[1]))
				cl.Label = strings.TrimSpace(kv[0])
			} else {
				cl, err = parseClause(text)
			}
			if err != nil {
				db.errf("%s: %s: %v", file, cur.Name, err)
				continue
			}
			cl.Props = props
			cl.Cases, cl.CaseLo, cl.CaseHi = clCases, clLo, clHi
			switch it.kw {
			case "let":
				cur.Lets = append(cur.Lets, cl)
			case "requires":
				if cl.Label == "" {
					cl.Label = strconv.Itoa(len(cur.Requires))
				}
				cur.Requires = append(cur.Requires, cl)
			case "ensures":
				if cl.Label == "" {
					cl.Label = strconv.Itoa(len(cur.Ensures))
				}
				cur.Ensures = append(cur.Ensures, cl)
			case "invariant":
				if curLoop != nil {
					if cl.Label == "" {
						cl.Label = strconv.Itoa(len(curLoop.Invariants))
					}
					curLoop.Invariants = append(curLoop.Invariants, cl)
				}
			case "decreases":
				if curLoop != nil {
					c2 := cl
					curLoop.Decreases = &c2
				}
			}
		case "assigns":
			if cur == nil {
				continue
			}
			if strings.TrimSpace(it.rest) == "everything" {
				cur.AssignsAll = true
				continue
			}
			for _, part := range splitTop(it.rest, ',') {
				part = strings.TrimSpace(part)
				if strings.HasSuffix(part, "[*]") {
					// s[*]: every element of the backing array of slice s; the clause keeps the slice expression
					cl, err := parseClause(strings.TrimSuffix(part, "[*]"))
					if err != nil {
						db.errf("%s: %s: %v", file, cur.Name, err)
						continue
					}
					cl.Text = part
					cur.Assigns = append(cur.Assigns, cl)
					continue
				}
				cl, err := parseClause(part)
				if err != nil {
					db.errf("%s: %s: %v", file, cur.Name, err)
					continue
				}
				cur.Assigns = append(cur.Assigns, cl)
			}
		case "loop":
			if cur == nil {
				continue
			}
			curLoop = &LoopContract{Key: strings.TrimSpace(it.rest)}
			cur.Loops = append(cur.Loops, curLoop)
		case "unroll":
			if curLoop != nil {
				n, _ := strconv.Atoi(strings.TrimSpace(it.rest))
				curLoop.Unroll = n
			}
		case "modifies":
			if curLoop != nil {
				curLoop.Modifies = append(curLoop.Modifies, strings.Fields(it.rest)...)
			}
		}
	}
}

// ReadSpecFiles concatenates spec files and returns text plus signatures.
type SpecSig struct {
	Name string
	Args []Sort
	Res  Sort
}

func ReadSpecs(files []string) (string, map[string]SpecSig, error) {
	var sb strings.Builder
	sigs := map[string]SpecSig{}
	seen := map[string]bool{}
	var load func(f string) error
	load = func(f string) error {
		if seen[f] {
			return nil
		}
		seen[f] = true
		b, err := os.ReadFile(filepath.Join(verifDir(), "spec", f))
		if err != nil {
			return err
		}
		txt := string(b)
		// includes: "; include other.smt2"
		for _, ln := range strings.Split(txt, "\n") {
			if strings.HasPrefix(ln, "; include ") {
				if err := load(strings.TrimSpace(ln[len("; include "):])); err != nil {
					return err
				}
			}
		}
		sb.WriteString(txt)
		sb.WriteByte('\n')
		parseSigs(txt, sigs)
		return nil
	}
	for _, f := range files {
		if err := load(f); err != nil {
			return "", nil, err
		}
	}
	return sb.String(), sigs, nil
}

// parseSigs extracts (define-fun name ((a S)...) R ...) / define-fun-rec / declare-fun signatures.
func parseSigs(txt string, sigs map[string]SpecSig) {
	// strip comments
	var clean strings.Builder
	for _, ln := range strings.Split(txt, "\n") {
		if i := strings.Index(ln, ";"); i >= 0 {
			ln = ln[:i]
		}
		clean.WriteString(ln)
		clean.WriteByte('\n')
	}
	s := clean.String()
	i := 0
	for i < len(s) {
		if s[i] != '(' {
			i++
			continue
		}
		// top-level form
		depth := 0
		j := i
		for ; j < len(s); j++ {
			if s[j] == '(' {
				depth++
			} else if s[j] == ')' {
				depth--
				if depth == 0 {
					break
				}
			}
		}
		if j >= len(s) {
			break
		}
		form := s[i : j+1]
		i = j + 1
		parts := splitArgs(strings.Join(strings.Fields(form), " "))
		if len(parts) < 4 {
			continue
		}
		switch parts[0] {
		case "define-fun", "define-fun-rec":
			sig := SpecSig{Name: parts[1], Res: Sort(parts[3])}
			if parts[2] != "()" {
				for _, a := range splitArgs(parts[2]) {
					ap := splitArgs(a)
					if len(ap) == 2 {
						sig.Args = append(sig.Args, Sort(ap[1]))
					}
				}
			}
			sigs[sig.Name] = sig
		case "declare-fun":
			sig := SpecSig{Name: parts[1], Res: Sort(parts[3])}
			if parts[2] != "()" {
				for _, a := range splitArgs(parts[2]) {
					sig.Args = append(sig.Args, Sort(a))
				}
			}
			sigs[sig.Name] = sig
		case "declare-const":
			sigs[parts[1]] = SpecSig{Name: parts[1], Res: Sort(parts[2])}
		}
	}
}
