package main

// Replay of solver models on the real code: an in-package Go test is generated from the model values,
// injected with `go test -overlay` (nothing is written into /repo) and run against the working tree.

import (
	"encoding/json"
	"fmt"
	"go/types"
	"math/big"
	"os"
	"os/exec"
	"path/filepath"
	"sort"
	"strings"
	"time"
)

type replayGen struct {
	pkg     *types.Package
	imports map[string]string // path -> name
	vals    map[string]string
	notes   []string
	incomplete bool // some input could not be rebuilt faithfully: a matching run proves nothing
}

func (g *replayGen) qual(p *types.Package) string {
	if p == g.pkg {
		return ""
	}
	g.imports[p.Path()] = p.Name()
	return p.Name()
}

func (g *replayGen) typeStr(t types.Type) string { return types.TypeString(t, g.qual) }

func parseSMTInt(s string) (*big.Int, int, bool) {
	s = strings.TrimSpace(s)
	if strings.HasPrefix(s, "#x") {
		v, ok := new(big.Int).SetString(s[2:], 16)
		return v, 4 * (len(s) - 2), ok
	}
	if strings.HasPrefix(s, "#b") {
		v, ok := new(big.Int).SetString(s[2:], 2)
		return v, len(s) - 2, ok
	}
	if strings.HasPrefix(s, "(_ bv") {
		var v big.Int
		var w int
		parts := strings.Fields(strings.Trim(s, "()"))
		if len(parts) == 3 {
			v.SetString(parts[1][2:], 10)
			fmt.Sscanf(parts[2], "%d", &w)
			return &v, w, true
		}
	}
	return nil, 0, false
}

func (g *replayGen) intLit(label string, t types.Type) (string, bool) {
	raw, ok := g.vals[label]
	if !ok {
		return "", false
	}
	v, w, ok := parseSMTInt(raw)
	if !ok {
		return "", false
	}
	_, signed, _ := isInteger(t)
	if signed {
		v = toSigned(v, w)
	}
	return fmt.Sprintf("%s(%s)", g.typeStr(t), v.String()), true
}

func (g *replayGen) uintVal(label string) (uint64, bool) {
	raw, ok := g.vals[label]
	if !ok {
		return 0, false
	}
	v, _, ok := parseSMTInt(raw)
	if !ok || !v.IsUint64() {
		return 0, false
	}
	return v.Uint64(), true
}

// render builds a Go expression for the value labelled `label` of type t.
func (g *replayGen) render(label string, t types.Type, depth int) (string, bool) {
	if depth > 8 {
		return "", false
	}
	switch u := t.Underlying().(type) {
	case *types.Basic:
		if _, _, isInt := isInteger(t); isInt {
			return g.intLit(label, t)
		}
		if u.Kind() == types.Bool {
			raw, ok := g.vals[label]
			if !ok {
				return "", false
			}
			return fmt.Sprintf("%s(%s)", g.typeStr(t), raw), true
		}
		if u.Kind() == types.String {
			g.notes = append(g.notes, label+": string contents are abstracted; using \"\"")
			return fmt.Sprintf("%s(\"\")", g.typeStr(t)), true
		}
		return "", false
	case *types.Slice:
		if raw, ok := g.vals[label+".nil"]; ok && raw == "true" {
			return fmt.Sprintf("%s(nil)", g.typeStr(t)), true
		}
		ln, ok1 := g.uintVal(label + ".len")
		cp, ok2 := g.uintVal(label + ".cap")
		if _, hasNil := g.vals[label+".nil"]; !ok1 && !ok2 && !hasNil {
			// the verification condition does not mention this slice: any value completes the model
			return fmt.Sprintf("%s(nil)", g.typeStr(t)), true
		}
		if !ok1 || !ok2 {
			return "", false
		}
		if ln > 1<<16 || cp > 1<<20 {
			g.notes = append(g.notes, fmt.Sprintf("%s: model needs len=%d cap=%d (too large to execute)", label, ln, cp))
			return "", false
		}
		if _, _, isInt := isInteger(u.Elem()); !isInt {
			if ln == 0 {
				return fmt.Sprintf("make(%s, 0, %d)", g.typeStr(t), cp), true
			}
			return "", false
		}
		var elems []string
		n := int(ln)
		if int(cp) < modelElems {
			n = int(cp) // bytes behind len matter (cap > len)
		} else if n < modelElems {
			n = modelElems
		}
		if n > modelElems {
			g.notes = append(g.notes, fmt.Sprintf("%s: only the first %d elements come from the model, the rest are zero", label, modelElems))
			n = modelElems
		}
		for i := 0; i < n; i++ {
			e, ok := g.intLit(fmt.Sprintf("%s[%d]", label, i), u.Elem())
			if !ok {
				e = "0"
			}
			elems = append(elems, e)
		}
		et := g.typeStr(u.Elem())
		return fmt.Sprintf("func() %s { b := make([]%s, %d); copy(b, []%s{%s}); return %s(b[:%d:%d]) }()", g.typeStr(t), et, cp, et, strings.Join(elems, ", "), g.typeStr(t), ln, cp), true
	case *types.Array:
		if u.Len() > modelElems {
			g.notes = append(g.notes, fmt.Sprintf("%s: only the first %d elements come from the model", label, modelElems))
		}
		var elems []string
		for i := int64(0); i < u.Len() && i < modelElems; i++ {
			e, ok := g.render(fmt.Sprintf("%s[%d]", label, i), u.Elem(), depth+1)
			if !ok {
				return "", false
			}
			elems = append(elems, fmt.Sprintf("%d: %s", i, e))
		}
		return fmt.Sprintf("%s{%s}", g.typeStr(t), strings.Join(elems, ", ")), true
	case *types.Struct:
		var fields []string
		for i := 0; i < u.NumFields(); i++ {
			f := u.Field(i)
			if f.Name() == "_" {
				continue
			}
			if !f.Exported() && f.Pkg() != g.pkg {
				continue // cannot be set from here; zero value
			}
			e, ok := g.render(label+"."+f.Name(), f.Type(), depth+1)
			if !ok {
				// leave zero value, note it
				g.notes = append(g.notes, label+"."+f.Name()+": not reconstructed (zero value used)")
				g.incomplete = true
				continue
			}
			fields = append(fields, fmt.Sprintf("%s: %s", f.Name(), e))
		}
		return fmt.Sprintf("%s{%s}", g.typeStr(t), strings.Join(fields, ", ")), true
	case *types.Pointer:
		if ref, ok := g.uintVal(label + ".ref"); ok && ref == 0 {
			return fmt.Sprintf("(%s)(nil)", g.typeStr(t)), true
		}
		if named, ok := u.Elem().(*types.Named); ok && named.Obj().Pkg() != nil && named.Obj().Pkg().Path() == "bytes" && named.Obj().Name() == "Reader" {
			// *bytes.Reader: rebuilt from its byte slice and read offset
			sl, ok1 := g.render("*"+label+".s", types.NewSlice(types.Typ[types.Byte]), depth+1)
			off, ok2 := g.uintVal("*" + label + ".i")
			if ok1 && ok2 && off < 1<<20 {
				g.imports["bytes"] = "bytes"
				return fmt.Sprintf("func() *bytes.Reader { r := bytes.NewReader(%s); r.Seek(%d, 0); return r }()", sl, off), true
			}
		}
		if _, isStruct := u.Elem().Underlying().(*types.Struct); isStruct {
			if named, ok := u.Elem().(*types.Named); ok && named.Obj().Pkg() != nil && !strings.HasPrefix(named.Obj().Pkg().Path(), modPath) {
				g.notes = append(g.notes, label+": pointer to library type not reconstructed (nil used)")
				g.incomplete = true
				return fmt.Sprintf("(%s)(nil)", g.typeStr(t)), true
			}
		}
		e, ok := g.render("*"+label, u.Elem(), depth+1)
		if !ok {
			return "", false
		}
		if strings.HasPrefix(e, g.typeStr(u.Elem())+"{") {
			return "&" + e, true
		}
		return fmt.Sprintf("func() %s { v := %s; return &v }()", g.typeStr(t), e), true
	case *types.Interface:
		if raw, ok := g.vals[label+".isnil"]; ok && raw == "true" {
			return "nil", true
		}
		return "", false
	case *types.Signature:
		if ref, ok := g.uintVal(label + ".ref"); ok && ref == 0 {
			return fmt.Sprintf("(%s)(nil)", g.typeStr(t)), true
		}
		return "", false
	case *types.Map:
		if ref, ok := g.uintVal(label + ".ref"); ok && ref == 0 {
			return fmt.Sprintf("(%s)(nil)", g.typeStr(t)), true
		}
		g.notes = append(g.notes, label+": map contents not reconstructed (empty map used)")
		g.incomplete = true
		return fmt.Sprintf("%s{}", g.typeStr(t)), true
	}
	return "", false
}

// compare builds Go statements comparing actual result `got` against the model's prediction.
func (g *replayGen) compare(label, got string, t types.Type) []string {
	var out []string
	switch u := t.Underlying().(type) {
	case *types.Basic:
		if e, ok := g.render(label, t, 0); ok && u.Kind() != types.String {
			out = append(out, fmt.Sprintf("if %s != %s { mismatch(%q, %s, %s) }", got, e, label, got, e))
		}
	case *types.Slice:
		if ln, ok := g.uintVal(label + ".len"); ok {
			out = append(out, fmt.Sprintf("if len(%s) != %d { mismatch(%q+\".len\", len(%s), %d) }", got, ln, label, got, ln))
			if _, _, isInt := isInteger(u.Elem()); isInt {
				for i := uint64(0); i < ln && i < modelElems; i++ {
					if e, ok := g.intLit(fmt.Sprintf("%s[%d]", label, i), u.Elem()); ok {
						out = append(out, fmt.Sprintf("if %d < len(%s) && %s[%d] != %s { mismatch(\"%s[%d]\", %s[%d], %s) }", i, got, got, i, e, label, i, got, i, e))
					}
				}
			}
		}
	case *types.Interface:
		if raw, ok := g.vals[label+".isnil"]; ok {
			out = append(out, fmt.Sprintf("if (%s == nil) != %s { mismatch(%q+\".isnil\", %s == nil, %s) }", got, raw, label, got, raw))
		}
	case *types.Array:
		if _, _, isInt := isInteger(u.Elem()); isInt {
			for i := int64(0); i < u.Len() && i < modelElems; i++ {
				if e, ok := g.intLit(fmt.Sprintf("%s[%d]", label, i), u.Elem()); ok {
					out = append(out, fmt.Sprintf("if %s[%d] != %s { mismatch(\"%s[%d]\", %s[%d], %s) }", got, i, e, label, i, got, i, e))
				}
			}
		}
	}
	return out
}

type ReplayOutcome struct {
	Path      string
	Confirmed bool
	Ran       bool
	Log       string
}

var safetyKinds = map[ObKind]bool{"idx": true, "slice": true, "nil": true, "div": true, "conv": true, "alloc": true, "panic": true, "shift": true}

// BuildReplay generates and runs a replay for a failed obligation that has a model.
func BuildReplay(prop string, fr *FnResult, o *Obligation) ReplayOutcome {
	out := ReplayOutcome{}
	dir := filepath.Join(verifDir(), "replay", prop)
	os.MkdirAll(dir, 0o755)
	out.Path = filepath.Join(dir, sanitizeFile(o.Name)+".txt")
	var hdr strings.Builder
	note := ""
	if len(o.Instances) > 0 {
		note = o.Instances[0].Note
	}
	fmt.Fprintf(&hdr, "obligation: %s\nkind: %s\nfunction: %s\nstatus: %s\nclause/site: %s %s\nsolver: %s\n\nmodel:\n%s\n", o.Name, o.Kind, o.Fn, o.Status, o.Detail, note, o.Solver, o.Model)
	fn := fr.Contract.Fn
	finish := func(extra string) ReplayOutcome {
		os.WriteFile(out.Path, []byte(hdr.String()+extra), 0o644)
		return out
	}
	if fn == nil || o.ModelVals == nil || fn.Pkg == nil {
		return finish("\nno executable replay: no model values\n")
	}
	g := &replayGen{pkg: fn.Pkg.Pkg, imports: map[string]string{}, vals: o.ModelVals}
	var args []string
	for _, p := range fr.ParamTerms {
		e, ok := g.render(p.Name, p.Typ, 0)
		if !ok {
			return finish(fmt.Sprintf("\nno executable replay: cannot reconstruct argument %s of type %s from the model\n%s\n", p.Name, p.Typ, strings.Join(g.notes, "\n")))
		}
		args = append(args, e)
	}
	sig := fn.Signature
	var call string
	if sig.Recv() != nil {
		call = fmt.Sprintf("recv.%s(%s)", fn.Name(), strings.Join(argNames(len(args)-1, 1), ", "))
	} else {
		call = fmt.Sprintf("%s(%s)", fn.Name(), strings.Join(argNames(len(args), 0), ", "))
	}
	var body strings.Builder
	for i, a := range args {
		if sig.Recv() != nil && i == 0 {
			fmt.Fprintf(&body, "\trecv := %s\n", a)
		} else {
			fmt.Fprintf(&body, "\ta%d := %s\n", i, a)
		}
	}
	nres := sig.Results().Len()
	var gots []string
	for i := 0; i < nres; i++ {
		gots = append(gots, fmt.Sprintf("got%d", i))
	}
	if nres > 0 {
		fmt.Fprintf(&body, "\t%s := %s\n", strings.Join(gots, ", "), call)
		for _, gname := range gots {
			fmt.Fprintf(&body, "\t_ = %s\n", gname)
		}
	} else {
		fmt.Fprintf(&body, "\t%s\n", call)
	}
	fmt.Fprintf(&body, "\tfmt.Println(\"REPLAY-RETURNED\")\n")
	nCmp := 0
	for i := 0; i < nres; i++ {
		for _, st := range g.compare(fmt.Sprintf("result%d", i), gots[i], sig.Results().At(i).Type()) {
			fmt.Fprintf(&body, "\t%s\n", st)
			nCmp++
		}
	}
	for i := 0; i < nres; i++ {
		fmt.Fprintf(&body, "\tfmt.Printf(\"REPLAY-RESULT result%d = %%v\\n\", %s)\n", i, gots[i])
	}
	// objects reachable through pointer parameters: compare their scalar contents after the call
	for _, q := range fr.Ctx.queries {
		if !strings.HasPrefix(q.Label, "post:*") || q.Typ == nil {
			continue
		}
		path := q.Label[len("post:*"):]
		// path starts with the parameter name
		for i, p := range fr.ParamTerms {
			if !strings.HasPrefix(path, p.Name) || (len(path) > len(p.Name) && path[len(p.Name)] != '.' && path[len(p.Name)] != '[') {
				continue
			}
			goName := fmt.Sprintf("a%d", i)
			if sig.Recv() != nil && i == 0 {
				goName = "recv"
			}
			expr := "(*" + goName + ")" + path[len(p.Name):]
			if strings.Contains(expr, "*") && strings.Count(expr, "*") > 1 {
				continue // nested pointers are not compared
			}
			var lit string
			var ok bool
			if _, _, isInt := isInteger(q.Typ); isInt {
				lit, ok = g.intLit(q.Label, q.Typ)
			} else if raw, has := g.vals[q.Label]; has && (raw == "true" || raw == "false") {
				lit, ok = fmt.Sprintf("%s(%s)", g.typeStr(q.Typ), raw), true
			}
			if ok {
				fmt.Fprintf(&body, "\tif %s != %s { mismatch(%q, %s, %s) }\n", expr, lit, q.Label, expr, lit)
				nCmp++
			}
		}
	}
	var imps []string
	g.imports["fmt"] = "fmt"
	g.imports["testing"] = "testing"
	for p, n := range g.imports {
		imps = append(imps, fmt.Sprintf("\t%s %q", n, p))
	}
	sort.Strings(imps)
	src := fmt.Sprintf(`package %s

import (
%s
)

func TestGovcReplay(t *testing.T) {
	mismatches := 0
	mismatch := func(what string, got, want interface{}) {
		mismatches++
		fmt.Printf("REPLAY-MISMATCH %%s: real code gives %%v, model predicted %%v\n", what, got, want)
	}
	_ = mismatch
	defer func() {
		if r := recover(); r != nil {
			fmt.Printf("REPLAY-PANIC %%v\n", r)
			return
		}
		fmt.Printf("REPLAY-COMPARED mismatches=%%d\n", mismatches)
	}()
%s}
`, fn.Pkg.Pkg.Name(), strings.Join(imps, "\n"), body.String())

	// run
	pkgDir := filepath.Join(repoDir(), strings.TrimPrefix(fn.Pkg.Pkg.Path(), modPath+"/"))
	tmp, err := os.MkdirTemp("", "govc-replay")
	if err != nil {
		return finish("\nno executable replay: " + err.Error())
	}
	defer os.RemoveAll(tmp)
	testFile := filepath.Join(tmp, "zz_govc_replay_test.go")
	os.WriteFile(testFile, []byte(src), 0o644)
	repl := map[string]string{filepath.Join(pkgDir, "zz_govc_replay_test.go"): testFile}
	// neutralise the package's own test files (external test packages may not build offline)
	entries, _ := os.ReadDir(pkgDir)
	empty := filepath.Join(tmp, "empty_test.go")
	os.WriteFile(empty, []byte("package "+fn.Pkg.Pkg.Name()+"\n"), 0o644)
	for _, e := range entries {
		if strings.HasSuffix(e.Name(), "_test.go") {
			repl[filepath.Join(pkgDir, e.Name())] = empty
		}
	}
	repl[filepath.Join(repoDir(), "pkg/Rust-VRF/vrf-func-ffi/src/vrf.go")] = filepath.Join(verifDir(), "stubs/vrf_build/vrf.go")
	repl[filepath.Join(repoDir(), "pkg/erasure_coding/erasure_coding.go")] = filepath.Join(verifDir(), "stubs/erasure_build/erasure_coding.go")
	ovb, _ := json.Marshal(map[string]interface{}{"Replace": repl})
	ov := filepath.Join(tmp, "ov.json")
	os.WriteFile(ov, ovb, 0o644)
	cmd := exec.Command("go", "test", "-overlay", ov, "-vet=off", "-count=1", "-timeout", "60s", "-run", "^TestGovcReplay$", "-v", ".")
	cmd.Dir = pkgDir
	cmd.Env = append(os.Environ(), "CGO_ENABLED=0", "GOFLAGS=-mod=mod", "GOPROXY=off", "GOSUMDB=off", "GOTOOLCHAIN=local")
	done := make(chan struct{})
	var outb []byte
	go func() { outb, _ = cmd.CombinedOutput(); close(done) }()
	select {
	case <-done:
	case <-time.After(150 * time.Second):
		if cmd.Process != nil {
			cmd.Process.Kill()
		}
		<-done
	}
	log := string(outb)
	out.Ran = strings.Contains(log, "REPLAY-")
	expectPanic := safetyKinds[o.Kind]
	panicked := strings.Contains(log, "REPLAY-PANIC") && !strings.Contains(log, "REPLAY-RETURNED") // a panic inside the function itself
	switch {
	case g.incomplete || o.Kind == "frame" || o.Kind == "inv-init" || o.Kind == "inv-keep" || o.Kind == "dec" || o.Kind == "pre":
		// some input could not be rebuilt from the model, or the obligation is not about the observable result
		// (frame conditions, loop invariants, callee preconditions): whatever the run does confirms nothing
	case expectPanic && panicked:
		out.Confirmed = true
	case !expectPanic && strings.Contains(log, "REPLAY-COMPARED mismatches=0") && nCmp > 0 && !g.incomplete:
		out.Confirmed = true
	case !expectPanic && panicked:
		// the real code panics where the contract expected a defined result: also a confirmed failure of the obligation
		out.Confirmed = true
	}
	verdict := "NOT CONFIRMED (spurious model, or the failing component is not observable from the reconstructed inputs)"
	if out.Confirmed {
		verdict = "CONFIRMED on the real code"
	}
	if !out.Ran {
		verdict = "replay did not run (build failure?)"
	}
	out.Log = log
	return finish(fmt.Sprintf("\nreplay verdict: %s\nexpectation: %s\nnotes: %s\n\n--- replay test (package %s, injected with go test -overlay) ---\n%s\n--- go test output ---\n%s\n",
		verdict, map[bool]string{true: "run-time panic at the site", false: "real results equal the model's predicted results (for which the solver evaluated the clause to false)"}[expectPanic],
		strings.Join(g.notes, "; "), fn.Pkg.Pkg.Path(), src, log))
}

func argNames(n, from int) []string {
	var out []string
	for i := 0; i < n; i++ {
		out = append(out, fmt.Sprintf("a%d", i+from))
	}
	return out
}
