package main

// SMT term construction with light constant folding. Terms are s-expression strings with a sort;
// every non-trivial intermediate is named by a define-fun in the owning Ctx so VCs stay linear in size.

import (
	"strconv"
	"fmt"
	"math/big"
	"strings"
)

type Sort string

const (
	SBool Sort = "Bool"
	SRef  Sort = "(_ BitVec 32)"
	SStr  Sort = "Str"
	SF64  Sort = "F64"
)

func SBV(n int) Sort { return Sort(fmt.Sprintf("(_ BitVec %d)", n)) }
func SArr(i, e Sort) Sort {
	return Sort(fmt.Sprintf("(Array %s %s)", i, e))
}

var SIdx = SBV(64)

func (s Sort) BVWidth() int {
	var n int
	if _, err := fmt.Sscanf(string(s), "(_ BitVec %d)", &n); err == nil {
		return n
	}
	return 0
}

func (s Sort) IsArray() bool { return strings.HasPrefix(string(s), "(Array ") }

// ArrayParts splits "(Array I E)" into I and E.
func (s Sort) ArrayParts() (Sort, Sort) {
	str := string(s)
	str = str[len("(Array ") : len(str)-1]
	// first sort token
	depth := 0
	for i := 0; i < len(str); i++ {
		switch str[i] {
		case '(':
			depth++
		case ')':
			depth--
		case ' ':
			if depth == 0 {
				return Sort(str[:i]), Sort(str[i+1:])
			}
		}
	}
	panic("bad array sort " + string(s))
}

type Term struct {
	S    string
	Sort Sort
	// constant info (for folding)
	isConst bool
	cval    *big.Int // for BV consts (unsigned value) ; for Bool: 0/1
	// tree: set when the term is an if-then-else tree whose leaves are all BV constants (e.g. a length computed by an
	// unrolled loop). Operations whose cost explodes on symbolic operands (division, shifts) are pushed into the leaves.
	tree *CTree
}

type CTree struct {
	Cond Term
	T, E *CTree
	Leaf Term // when T == nil
	N    int  // number of leaves
}

const maxTreeLeaves = 40

func treeOf(t Term) *CTree {
	if t.tree != nil {
		return t.tree
	}
	if t.isConst && t.Sort.BVWidth() > 0 {
		return &CTree{Leaf: t, N: 1}
	}
	return nil
}

// mapTree applies f to every leaf and rebuilds the ite term.
func mapTree(tr *CTree, f func(Term) Term) Term {
	if tr.T == nil {
		return f(tr.Leaf)
	}
	return Ite(tr.Cond, mapTree(tr.T, f), mapTree(tr.E, f))
}

func (t Term) String() string { return t.S }

var (
	TTrue  = Term{S: "true", Sort: SBool, isConst: true, cval: big.NewInt(1)}
	TFalse = Term{S: "false", Sort: SBool, isConst: true, cval: big.NewInt(0)}
)

func (t Term) IsTrue() bool  { return t.Sort == SBool && t.isConst && t.cval.Sign() != 0 }
func (t Term) IsFalse() bool { return t.Sort == SBool && t.isConst && t.cval.Sign() == 0 }
func (t Term) Const() (*big.Int, bool) {
	if t.isConst {
		return t.cval, true
	}
	return nil, false
}

func mask(n int) *big.Int {
	m := new(big.Int).Lsh(big.NewInt(1), uint(n))
	return m.Sub(m, big.NewInt(1))
}

func BVConst(v *big.Int, n int) Term {
	x := new(big.Int).And(v, mask(n)) // big.Int And on negative works as two's complement
	if v.Sign() < 0 {
		x = new(big.Int).Add(new(big.Int).Lsh(big.NewInt(1), uint(n)), v)
		x.And(x, mask(n))
	}
	var s string
	if n%4 == 0 {
		s = fmt.Sprintf("#x%0*s", n/4, x.Text(16))
	} else {
		s = fmt.Sprintf("#b%0*s", n, x.Text(2))
	}
	return Term{S: s, Sort: SBV(n), isConst: true, cval: x}
}

func BVInt(v int64, n int) Term { return BVConst(big.NewInt(v), n) }
func BVUint(v uint64, n int) Term {
	return BVConst(new(big.Int).SetUint64(v), n)
}

func BoolConst(b bool) Term {
	if b {
		return TTrue
	}
	return TFalse
}

func App(sort Sort, op string, args ...Term) Term {
	// field selector applied to a constructor application: the field itself (selectors are named <S>-<i>-<field>,
	// constructors mk-<S>)
	if len(args) == 1 && strings.HasPrefix(op, "S_") && strings.HasPrefix(args[0].S, "(mk-S_") {
		if i := strings.Index(op, "-"); i > 0 {
			sname := op[:i]
			rest := op[i+1:]
			if j := strings.Index(rest, "-"); j > 0 && strings.HasPrefix(args[0].S, "(mk-"+sname+" ") {
				if fi, err := strconv.Atoi(rest[:j]); err == nil {
					if parts := splitArgs(args[0].S); fi+1 < len(parts) {
						return atomTerm(parts[fi+1], sort)
					}
				}
			}
		}
	}
	var sb strings.Builder
	sb.WriteByte('(')
	sb.WriteString(op)
	for _, a := range args {
		sb.WriteByte(' ')
		sb.WriteString(a.S)
	}
	sb.WriteByte(')')
	if sb.Len() > 4<<20 {
		panic(fmt.Sprintf("verification condition term exceeds the 4 MiB cap (%d bytes): the function needs a loop invariant or a callee contract", sb.Len()))
	}
	return Term{S: sb.String(), Sort: sort}
}

func Raw(sort Sort, s string) Term { return Term{S: s, Sort: sort} }

func toSigned(v *big.Int, n int) *big.Int {
	if v.Bit(n-1) == 1 {
		return new(big.Int).Sub(v, new(big.Int).Lsh(big.NewInt(1), uint(n)))
	}
	return v
}

func Not(a Term) Term {
	if a.isConst {
		return BoolConst(a.cval.Sign() == 0)
	}
	if strings.HasPrefix(a.S, "(not ") {
		return Term{S: a.S[5 : len(a.S)-1], Sort: SBool}
	}
	return App(SBool, "not", a)
}

func And(ts ...Term) Term {
	var out []Term
	seen := map[string]bool{}
	for _, t := range ts {
		if t.IsFalse() {
			return TFalse
		}
		if t.IsTrue() || seen[t.S] {
			continue
		}
		seen[t.S] = true
		out = append(out, t)
	}
	switch len(out) {
	case 0:
		return TTrue
	case 1:
		return out[0]
	}
	return App(SBool, "and", out...)
}

func Or(ts ...Term) Term {
	var out []Term
	seen := map[string]bool{}
	for _, t := range ts {
		if t.IsTrue() {
			return TTrue
		}
		if t.IsFalse() || seen[t.S] {
			continue
		}
		seen[t.S] = true
		out = append(out, t)
	}
	switch len(out) {
	case 0:
		return TFalse
	case 1:
		return out[0]
	}
	return App(SBool, "or", out...)
}

func Implies(a, b Term) Term {
	if a.IsTrue() {
		return b
	}
	if a.IsFalse() || b.IsTrue() {
		return TTrue
	}
	if b.IsFalse() {
		return Not(a)
	}
	return App(SBool, "=>", a, b)
}

func Ite(c, a, b Term) Term {
	if c.IsTrue() {
		return a
	}
	if c.IsFalse() {
		return b
	}
	if a.S == b.S {
		return a
	}
	if a.Sort == SBool {
		if a.IsTrue() && b.IsFalse() {
			return c
		}
		if a.IsFalse() && b.IsTrue() {
			return Not(c)
		}
	}
	if a.Sort == "Slice" && strings.HasPrefix(a.S, "(mk-slice ") && strings.HasPrefix(b.S, "(mk-slice ") {
		// component-wise: keeps lengths that agree on both sides syntactically constant
		pa, pb := splitArgs(a.S), splitArgs(b.S)
		if len(pa) == 5 && len(pb) == 5 {
			srt := []Sort{SRef, SBV(64), SBV(64), SBV(64)}
			var comps []Term
			for i := 0; i < 4; i++ {
				comps = append(comps, Ite(c, atomTerm(pa[i+1], srt[i]), atomTerm(pb[i+1], srt[i])))
			}
			return App(a.Sort, "mk-slice", comps...)
		}
	}
	r := App(a.Sort, "ite", c, a, b)
	if a.Sort.BVWidth() > 0 {
		ta, tb := treeOf(a), treeOf(b)
		if ta != nil && tb != nil && ta.N+tb.N <= maxTreeLeaves {
			r.tree = &CTree{Cond: c, T: ta, E: tb, N: ta.N + tb.N}
		}
	}
	return r
}

// atomTerm rebuilds a Term from its text (recovering constness of literals).
func atomTerm(s string, srt Sort) Term {
	if strings.HasPrefix(s, "#x") {
		if v, ok := new(big.Int).SetString(s[2:], 16); ok {
			return BVConst(v, 4*(len(s)-2))
		}
	}
	if strings.HasPrefix(s, "#b") {
		if v, ok := new(big.Int).SetString(s[2:], 2); ok {
			return BVConst(v, len(s)-2)
		}
	}
	if s == "true" && srt == SBool {
		return TTrue
	}
	if s == "false" && srt == SBool {
		return TFalse
	}
	return Term{S: s, Sort: srt}
}

func Eq(a, b Term) Term {
	if a.S == b.S {
		return TTrue
	}
	if a.isConst && b.isConst {
		return BoolConst(a.cval.Cmp(b.cval) == 0)
	}
	if a.Sort != b.Sort {
		panic(fmt.Sprintf("Eq sort mismatch: %s:%s vs %s:%s", a.S, a.Sort, b.S, b.Sort))
	}
	if a.tree != nil && b.isConst {
		return mapTree(a.tree, func(l Term) Term { return Eq(l, b) })
	}
	if b.tree != nil && a.isConst {
		return mapTree(b.tree, func(l Term) Term { return Eq(a, l) })
	}
	return App(SBool, "=", a, b)
}

func bvBin(op string, a, b Term) Term {
	n := a.Sort.BVWidth()
	if n == 0 || a.Sort != b.Sort {
		panic(fmt.Sprintf("bvBin %s sort mismatch: %s:%s vs %s:%s", op, a.S, a.Sort, b.S, b.Sort))
	}
	if a.tree != nil && (b.isConst || b.tree != nil) || b.tree != nil && a.isConst {
		// constant trees combine into constant trees
		if a.tree != nil && b.tree != nil && a.tree.N*b.tree.N > maxTreeLeaves {
			// too many combinations: fall through to the plain term
		} else if a.tree != nil {
			return mapTree(a.tree, func(l Term) Term { return bvBin(op, l, b) })
		} else {
			return mapTree(b.tree, func(l Term) Term { return bvBin(op, a, l) })
		}
	}
	switch op {
	case "bvudiv", "bvurem", "bvsdiv", "bvsrem", "bvshl", "bvlshr", "bvashr", "bvmul":
		// expensive operators with one tree operand: push the operator into the (constant) leaves
		if b.tree != nil && !a.isConst {
			return mapTree(b.tree, func(l Term) Term { return bvBin(op, a, l) })
		}
		if a.tree != nil && !b.isConst && op == "bvmul" {
			return mapTree(a.tree, func(l Term) Term { return bvBin(op, l, b) })
		}
	}
	if b.isConst && b.cval.Sign() > 0 && new(big.Int).And(b.cval, new(big.Int).Sub(b.cval, big.NewInt(1))).Sign() == 0 && !a.isConst {
		// unsigned division / remainder by a power of two
		k := b.cval.BitLen() - 1
		switch op {
		case "bvudiv":
			return bvBin("bvlshr", a, BVInt(int64(k), n))
		case "bvurem":
			return bvBin("bvand", a, BVConst(new(big.Int).Sub(b.cval, big.NewInt(1)), n))
		}
	}
	if a.isConst && b.isConst {
		x, y := a.cval, b.cval
		r := new(big.Int)
		ok := true
		switch op {
		case "bvadd":
			r.Add(x, y)
		case "bvsub":
			r.Sub(x, y)
		case "bvmul":
			r.Mul(x, y)
		case "bvand":
			r.And(x, y)
		case "bvor":
			r.Or(x, y)
		case "bvxor":
			r.Xor(x, y)
		case "bvshl":
			if y.BitLen() > 16 {
				r.SetInt64(0)
			} else {
				r.Lsh(x, uint(y.Uint64()))
			}
		case "bvlshr":
			if y.BitLen() > 16 {
				r.SetInt64(0)
			} else {
				r.Rsh(x, uint(y.Uint64()))
			}
		case "bvudiv":
			if y.Sign() == 0 {
				ok = false
			} else {
				r.Div(x, y)
			}
		case "bvurem":
			if y.Sign() == 0 {
				ok = false
			} else {
				r.Mod(x, y)
			}
		default:
			ok = false
		}
		if ok {
			return BVConst(r.And(r, mask(n)), n)
		}
	}
	// identities
	if b.isConst && b.cval.Sign() == 0 {
		switch op {
		case "bvadd", "bvsub", "bvor", "bvxor", "bvshl", "bvlshr", "bvashr":
			return a
		case "bvand", "bvmul":
			return b
		}
	}
	if a.isConst && a.cval.Sign() == 0 {
		switch op {
		case "bvadd", "bvor", "bvxor":
			return b
		case "bvand", "bvmul", "bvshl", "bvlshr":
			return a
		}
	}
	return App(a.Sort, op, a, b)
}

func bvCmp(op string, a, b Term) Term {
	n := a.Sort.BVWidth()
	if n == 0 || a.Sort != b.Sort {
		panic(fmt.Sprintf("bvCmp %s sort mismatch: %s:%s vs %s:%s", op, a.S, a.Sort, b.S, b.Sort))
	}
	if a.isConst && b.isConst {
		x, y := a.cval, b.cval
		if op[2] == 's' {
			x, y = toSigned(x, n), toSigned(y, n)
		}
		c := x.Cmp(y)
		switch op[3:] {
		case "lt":
			return BoolConst(c < 0)
		case "le":
			return BoolConst(c <= 0)
		case "gt":
			return BoolConst(c > 0)
		case "ge":
			return BoolConst(c >= 0)
		}
	}
	if a.tree != nil && b.isConst {
		return mapTree(a.tree, func(l Term) Term { return bvCmp(op, l, b) })
	}
	if b.tree != nil && a.isConst {
		return mapTree(b.tree, func(l Term) Term { return bvCmp(op, a, l) })
	}
	if a.S == b.S {
		switch op[3:] {
		case "lt", "gt":
			return TFalse
		case "le", "ge":
			return TTrue
		}
	}
	return App(SBool, op, a, b)
}

func Extract(hi, lo int, a Term) Term {
	n := hi - lo + 1
	if a.isConst {
		r := new(big.Int).Rsh(a.cval, uint(lo))
		return BVConst(r.And(r, mask(n)), n)
	}
	if lo == 0 && hi == a.Sort.BVWidth()-1 {
		return a
	}
	if a.tree != nil {
		return mapTree(a.tree, func(l Term) Term { return Extract(hi, lo, l) })
	}
	return Term{S: fmt.Sprintf("((_ extract %d %d) %s)", hi, lo, a.S), Sort: SBV(n)}
}

func ZeroExt(a Term, to int) Term {
	n := a.Sort.BVWidth()
	if n == to {
		return a
	}
	if a.isConst {
		return BVConst(a.cval, to)
	}
	if a.tree != nil {
		return mapTree(a.tree, func(l Term) Term { return ZeroExt(l, to) })
	}
	return Term{S: fmt.Sprintf("((_ zero_extend %d) %s)", to-n, a.S), Sort: SBV(to)}
}

func SignExt(a Term, to int) Term {
	n := a.Sort.BVWidth()
	if n == to {
		return a
	}
	if a.isConst {
		return BVConst(toSigned(a.cval, n), to)
	}
	if a.tree != nil {
		return mapTree(a.tree, func(l Term) Term { return SignExt(l, to) })
	}
	return Term{S: fmt.Sprintf("((_ sign_extend %d) %s)", to-n, a.S), Sort: SBV(to)}
}

func Concat(hi, lo Term) Term {
	n := hi.Sort.BVWidth() + lo.Sort.BVWidth()
	if hi.isConst && lo.isConst {
		r := new(big.Int).Lsh(hi.cval, uint(lo.Sort.BVWidth()))
		return BVConst(r.Or(r, lo.cval), n)
	}
	return App(SBV(n), "concat", hi, lo)
}

// Resize converts BV a to width `to`, sign- or zero-extending / truncating.
func Resize(a Term, to int, signed bool) Term {
	n := a.Sort.BVWidth()
	switch {
	case n == to:
		return a
	case n > to:
		return Extract(to-1, 0, a)
	case signed:
		return SignExt(a, to)
	default:
		return ZeroExt(a, to)
	}
}

func Select(arr, idx Term) Term {
	_, e := arr.Sort.ArrayParts()
	return App(e, "select", arr, idx)
}

func Store(arr, idx, v Term) Term {
	return App(arr.Sort, "store", arr, idx, v)
}

func ConstArray(sort Sort, v Term) Term {
	return Term{S: fmt.Sprintf("((as const %s) %s)", sort, v.S), Sort: sort}
}
