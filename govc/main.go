package main

import (
	"encoding/json"
	"flag"
	"fmt"
	"os"
	"path/filepath"
	"runtime"
	"sort"
	"strconv"
	"strings"
	"time"
)

type PropConfig struct {
	Packages []string `json:"packages"`
	Level    string   `json:"level"`
	Lemmas   []string `json:"lemmas"`
	Bounded  []string `json:"bounded_notes"`
	Assume   []string `json:"assumptions"`
}

type KnownFinding struct {
	Property   string `json:"property"`
	Obligation string `json:"obligation"`
	What       string `json:"what"`
	Witness    string `json:"witness,omitempty"`
	Fixed      string `json:"fixed,omitempty"` // "fixed: property=<id> <commit> <what failed>" entries suppress nothing
}

func repoDir() string {
	if d := os.Getenv("VERIF_REPO"); d != "" {
		return d
	}
	return "/repo"
}

func main() {
	if len(os.Args) < 2 {
		fmt.Fprintln(os.Stderr, "usage: govc check <PROP> [--thorough] | govc fn <name> [pkgs...]")
		os.Exit(2)
	}
	// the repository needs go >= 1.25.5; the default `go` on PATH is older. Use the cached toolchain, offline.
	const tc = "/root/go/pkg/mod/golang.org/toolchain@v0.0.1-go1.25.5.linux-amd64/bin"
	if _, err := os.Stat(tc); err == nil {
		os.Setenv("PATH", tc+":"+os.Getenv("PATH"))
	}
	os.Setenv("GOTOOLCHAIN", "local")
	os.Setenv("GOFLAGS", "-mod=mod")
	os.Setenv("GOPROXY", "off")
	os.Setenv("GOSUMDB", "off")
	switch os.Args[1] {
	case "check":
		os.Exit(cmdCheck(os.Args[2:]))
	case "fn":
		os.Exit(cmdFn(os.Args[2:]))
	case "list":
		os.Exit(cmdList(os.Args[2:]))
	case "replay":
		os.Exit(cmdReplay(os.Args[2:]))
	}
	fmt.Fprintln(os.Stderr, "unknown command")
	os.Exit(2)
}

func loadPropConfig() map[string]PropConfig {
	b, err := os.ReadFile(filepath.Join(verifDir(), "props.json"))
	if err != nil {
		fmt.Fprintln(os.Stderr, "cannot read props.json:", err)
		os.Exit(2)
	}
	var m map[string]PropConfig
	if err := json.Unmarshal(b, &m); err != nil {
		fmt.Fprintln(os.Stderr, "props.json:", err)
		os.Exit(2)
	}
	return m
}

func cmdList(args []string) int {
	pats := args
	if len(pats) == 0 {
		pats = []string{"./PVM"}
	}
	p, err := LoadProgram(repoDir(), pats)
	if err != nil {
		fmt.Fprintln(os.Stderr, err)
		return 2
	}
	db := LoadContracts(p)
	for _, e := range db.Errors {
		fmt.Println("contract error:", e)
	}
	for _, fc := range db.Order {
		fmt.Printf("%s props=%v requires=%d ensures=%d found=%v\n", fc.Name, fc.Props, len(fc.Requires), len(fc.Ensures), fc.Fn != nil)
	}
	return 0
}

func cmdFn(args []string) int {
	fs := flag.NewFlagSet("fn", flag.ExitOnError)
	verbose := fs.Bool("v", false, "verbose")
	timeout := fs.Int("t", 10, "solver timeout seconds")
	dump := fs.Bool("dump", false, "dump SSA")
	keep := fs.String("work", "", "work dir")
	doReplay := fs.Bool("replay", false, "replay models of failed obligations on the real code")
	key := fs.Int64("key", -1, "table contracts: only this key")
	fs.Parse(args)
	rest := fs.Args()
	if len(rest) < 1 {
		fmt.Fprintln(os.Stderr, "usage: govc fn [-v] <name> [pkgs...]")
		return 2
	}
	name := rest[0]
	pats := rest[1:]
	if len(pats) == 0 {
		i := strings.LastIndex(name, "/")
		dot := strings.Index(name[i+1:], ".")
		pats = []string{"./" + name[:i+1+dot]}
	}
	t0 := time.Now()
	p, err := LoadProgram(repoDir(), pats)
	if err != nil {
		fmt.Fprintln(os.Stderr, err)
		return 2
	}
	fmt.Fprintf(os.Stderr, "loaded in %.1fs\n", time.Since(t0).Seconds())
	db := LoadContracts(p)
	for _, e := range db.Errors {
		fmt.Println("contract error:", e)
	}
	fc := db.ByName[name]
	if fc != nil && fc.IsTable {
		if *key >= 0 {
			fc.Keys = []int64{*key}
		}
		insts, err := ExpandTable(p, db, fc)
		if err != nil {
			fmt.Fprintln(os.Stderr, err)
			return 2
		}
		rc := 0
		for _, in := range insts {
			rc |= runOne(p, db, in, *verbose, *timeout, *keep, *doReplay, *dump, t0)
		}
		return rc
	}
	if fc == nil {
		fn := p.FindFunc(name)
		if fn == nil {
			fmt.Fprintln(os.Stderr, "no such function", name)
			return 2
		}
		fc = &FnContract{Name: name, Fn: fn, Opts: map[string]string{}}
	}
	return runOne(p, db, fc, *verbose, *timeout, *keep, *doReplay, *dump, t0)
}

func runOne(p *Program, db *ContractDB, fc *FnContract, verbose bool, timeout int, keep string, doReplay, dump bool, t0 time.Time) int {
	if dump && fc.Fn != nil {
		fc.Fn.WriteTo(os.Stdout)
	}
	r := VerifyFunction(p, db, fc)
	if r.Err != nil {
		fmt.Println("TOOL-LIMIT:", r.Err)
	}
	work := keep
	if work == "" {
		work, _ = os.MkdirTemp("", "govc")
		defer os.RemoveAll(work)
	}
	stats, st, _ := Discharge([]*FnResult{r}, DischargeOpts{Timeout: time.Duration(timeout) * time.Second, Workers: runtime.NumCPU(), WorkDir: work})
	for _, o := range r.Obls {
		if verbose || o.Status != "discharged" {
			fmt.Printf("%-11s %-9s %-60s %s (%.2fs, %d inst)\n", o.Status, o.Kind, o.Name, o.Solver, o.Seconds, len(o.Instances))
			if o.Status != "discharged" {
				fmt.Printf("     %s\n", o.Detail)
				if len(o.Instances) > 0 {
					fmt.Printf("     note: %s\n", o.Instances[0].Note)
				}
				fmt.Printf("     %s\n", firstLines(o.Model, 12))
				if doReplay && o.Status == "failed" && o.ModelVals != nil {
					ro := BuildReplay("_fn", r, o)
					fmt.Printf("     replay: ran=%v confirmed=%v file=%s\n", ro.Ran, ro.Confirmed, ro.Path)
				}
			}
		}
	}
	fmt.Printf("%s: %d obligations %v solver %.1fs feas-calls %d total %.1fs\n", fc.Name, len(r.Obls), stats, st, r.FeasCalls, time.Since(t0).Seconds())
	if r.Ctx != nil {
		for _, n := range r.Ctx.SortedNotes() {
			fmt.Println("  note:", n)
		}
	}
	if r.Err != nil || stats["failed"]+stats["undecided"] > 0 {
		return 1
	}
	return 0
}

func loadKnown() []KnownFinding {
	b, err := os.ReadFile(filepath.Join(verifDir(), "known_findings.json"))
	if err != nil {
		return nil
	}
	var k []KnownFinding
	json.Unmarshal(b, &k)
	return k
}

func cmdCheck(args []string) int {
	fs := flag.NewFlagSet("check", flag.ExitOnError)
	thorough := fs.Bool("thorough", false, "thorough tier")
	fs.Parse(reorder(args))
	rest := fs.Args()
	if len(rest) != 1 {
		fmt.Fprintln(os.Stderr, "usage: govc check <PROP> [--thorough]")
		return 2
	}
	prop := rest[0]
	tier := "quick"
	if *thorough || os.Getenv("VERIF_TIER") == "thorough" {
		tier = "thorough"
	}
	seed := 0
	if s := os.Getenv("VERIF_SEED"); s != "" {
		seed, _ = strconv.Atoi(s)
	}
	cfgs := loadPropConfig()
	cfg, ok := cfgs[prop]
	if !ok {
		fmt.Fprintln(os.Stderr, "property not configured:", prop)
		return 2
	}
	t0 := time.Now()
	p, err := LoadProgram(repoDir(), cfg.Packages)
	if err != nil {
		// the tree does not type-check: cannot decide anything
		fmt.Fprintln(os.Stderr, "load failed:", err)
		rp := writeReplayText(prop, "load", "the repository does not load/type-check with tag verif: "+err.Error())
		fmt.Printf("VIOLATION property=%s replay=%s obligation=load no-failing-input-found\n", prop, rp)
		writeEvidence(prop, tier, seed, cfg, nil, nil, 0, nil, time.Since(t0).Seconds(), 1, nil, nil)
		return 1
	}
	db := LoadContracts(p)
	var results []*FnResult
	var names []string
	var fcs []*FnContract
	var tableErrs []string
	quickSubsets = nil
	for _, fc := range db.Order {
		if !fc.HasProp(prop) {
			continue
		}
		if fc.IsTable {
			if (tier != "thorough" || os.Getenv("GOVC_ALLKEYS") != "1") && len(fc.QuickKeys) > 0 {
				quickSubsets = append(quickSubsets, fmt.Sprintf("%s: this run verifies %d of %d keys (all keys: thorough tier with GOVC_ALLKEYS=1, about an hour)", fc.Name, len(fc.QuickKeys), len(fc.Keys)))
				fc.Keys = fc.QuickKeys
			}
			insts, err := ExpandTable(p, db, fc)
			if err != nil {
				tableErrs = append(tableErrs, err.Error())
				continue
			}
			for _, in := range insts {
				names = append(names, in.Name)
				fcs = append(fcs, in)
			}
			continue
		}
		names = append(names, fc.Name)
		fcs = append(fcs, fc)
	}
	// verify functions in parallel (each has its own Ctx)
	results = make([]*FnResult, len(names))
	sem := make(chan struct{}, 8)
	done := make(chan int, len(names))
	for i := range names {
		go func(i int) {
			sem <- struct{}{}
			results[i] = VerifyFunction(p, db, fcs[i])
			<-sem
			done <- i
		}(i)
	}
	for range names {
		<-done
	}
	genTime := time.Since(t0).Seconds()
	timeout := 20 * time.Second
	if tier == "thorough" {
		timeout = 90 * time.Second
	}
	work := filepath.Join(verifDir(), "work", prop)
	os.RemoveAll(work)
	stats, solverTime, byBackend := Discharge(results, DischargeOpts{Timeout: timeout, Workers: runtime.NumCPU(), WorkDir: work, Cross: tier == "thorough"})
	// lemmas: standalone SMT files that must be unsat
	lemmaRes := runLemmas(cfg.Lemmas, timeout, work)

	known := loadKnown()
	knownByObl := map[string]KnownFinding{}
	for _, k := range known {
		if k.Property == prop && k.Fixed == "" {
			knownByObl[k.Obligation] = k
		}
	}
	violations := 0
	var lines []string
	nObl, nDis := 0, 0
	var fnNames []string
	var samples []interface{}
	var knownHit []string
	replayed, confirmed := 0, 0
	var curFn *FnResult
	var curObl *Obligation
	report := func(oblName, status, detail, model string) {
		if k, ok := knownByObl[oblName]; ok {
			lines = append(lines, fmt.Sprintf("KNOWN-FINDING: property=%s %s [%s]", prop, k.What, oblName))
			knownHit = append(knownHit, oblName)
			return
		}
		violations++
		if curObl != nil && curFn != nil && curObl.Status == "failed" && curObl.ModelVals != nil {
			ro := BuildReplay(prop, curFn, curObl)
			if ro.Ran {
				replayed++
			}
			suffix := " no-failing-input-found"
			if ro.Confirmed {
				confirmed++
				suffix = " replayed-on-real-code"
			}
			lines = append(lines, fmt.Sprintf("VIOLATION property=%s replay=%s obligation=%q status=%s%s", prop, ro.Path, oblName, status, suffix))
			return
		}
		rp := writeReplayText(prop, oblName, fmt.Sprintf("obligation: %s\nstatus: %s\n%s\n\nsolver output:\n%s\n", oblName, status, detail, model))
		lines = append(lines, fmt.Sprintf("VIOLATION property=%s replay=%s obligation=%q status=%s no-failing-input-found", prop, rp, oblName, status))
	}
	for _, e := range db.Errors {
		// contract file problems are failures of the check for every property
		report("contracts#parse", "tool-limit", e, "")
	}
	for _, e := range tableErrs {
		report("contracts#table", "tool-limit", e, "")
	}
	if len(names) == 0 && len(cfg.Lemmas) == 0 {
		report("contracts#none", "tool-limit", "no function under contract for this property (vacuous check)", "")
	}
	for _, r := range results {
		fnNames = append(fnNames, r.Name)
		if r.Err != nil {
			nObl++
			report(r.Name+"#tool-limit", "tool-limit", r.Err.Error(), "")
			continue
		}
		if len(r.Obls) == 0 {
			nObl++
			report(r.Name+"#vacuous", "tool-limit", "function generated zero obligations", "")
		}
		for _, o := range r.Obls {
			nObl++
			if o.Status == "discharged" {
				nDis++
				if len(samples) < 6 && o.Kind != "cover" {
					samples = append(samples, map[string]interface{}{"obligation": o.Name, "kind": o.Kind, "solver": o.Solver, "seconds": round3(o.Seconds), "instances": len(o.Instances), "clause": o.Detail})
				}
				continue
			}
			note := ""
			if len(o.Instances) > 0 {
				note = o.Instances[0].Note
			}
			curFn, curObl = r, o
			report(o.Name, o.Status, o.Detail+" "+note, o.Model)
			curFn, curObl = nil, nil
		}
	}
	for _, lr := range lemmaRes {
		nObl++
		if lr.Status == "unsat" {
			nDis++
			byBackend[lr.Solver]++
			solverTime += lr.Seconds
			if len(samples) < 8 {
				samples = append(samples, map[string]interface{}{"obligation": "lemma:" + lr.Name, "kind": "lemma", "solver": lr.Solver, "seconds": round3(lr.Seconds)})
			}
		} else {
			report("lemma:"+lr.Name, lr.Status, "spec-level lemma not proved", lr.Output)
		}
	}
	// known findings that no longer fail are simply not printed
	sort.Strings(lines)
	for _, l := range lines {
		fmt.Println(l)
	}
	wall := time.Since(t0).Seconds()
	// obligations that are recorded known findings are reported separately, not as part of the proved set
	nObl -= len(knownHit)
	writeEvidence(prop, tier, seed, cfg, results, fnNames, nObl, map[string]interface{}{
		"discharged": nDis, "stats": stats, "by_backend": byBackend, "models_replayed": replayed, "models_confirmed_on_real_code": confirmed, "solver_s": round3(solverTime), "gen_s": round3(genTime), "samples": samples, "known_hit": knownHit,
	}, wall, violations, lemmaRes, lines)
	fmt.Printf("govc: property %s tier %s: %d functions under contract, %d obligations, %d discharged, %d violations, %d known findings, %.1fs\n",
		prop, tier, len(names), nObl, nDis, violations, len(knownHit), wall)
	if violations > 0 {
		return 1
	}
	return 0
}

func reorder(args []string) []string {
	var flags, rest []string
	for _, a := range args {
		if strings.HasPrefix(a, "-") {
			flags = append(flags, a)
		} else {
			rest = append(rest, a)
		}
	}
	return append(flags, rest...)
}

func round3(f float64) float64 { return float64(int(f*1000+0.5)) / 1000 }

type LemmaResult struct {
	Name    string
	Status  string
	Solver  string
	Seconds float64
	Output  string
}

func runLemmas(files []string, timeout time.Duration, work string) []LemmaResult {
	var out []LemmaResult
	for _, f := range files {
		path := filepath.Join(verifDir(), "spec", "lemmas", f)
		r := Race(path, timeout, solverPortfolio())
		out = append(out, LemmaResult{Name: f, Status: r.Status, Solver: r.Solver, Seconds: r.Seconds, Output: r.Output})
	}
	return out
}

func writeReplayText(prop, obl, text string) string {
	dir := filepath.Join(verifDir(), "replay", prop)
	os.MkdirAll(dir, 0o755)
	path := filepath.Join(dir, sanitizeFile(obl)+".txt")
	os.WriteFile(path, []byte(text), 0o644)
	return path
}

// quickSubsets: tables of which the quick tier verified only the declared key subset (reported as bounded notes)
var quickSubsets []string

func writeEvidence(prop, tier string, seed int, cfg PropConfig, results []*FnResult, fnNames []string, nObl int, extra map[string]interface{}, wall float64, violations int, lemmas []LemmaResult, lines []string) {
	level := cfg.Level
	if level == "" {
		level = "proof"
	}
	cov := map[string]interface{}{}
	nDis := 0
	if extra != nil {
		nDis, _ = extra["discharged"].(int)
		for k, v := range extra {
			cov[k] = v
		}
	}
	cov["obligations"] = nObl
	cov["discharged"] = nDis
	cov["checker_cmd"] = "govc check " + prop + " (go/ssa forward symbolic execution -> SMT-LIB; z3-new 5.1.0 || z3 4.8.12 || cvc5 1.0 raced per obligation)"
	trusted := map[string]bool{}
	notes := map[string]bool{}
	for _, r := range results {
		if r == nil || r.Ctx == nil {
			continue
		}
		for t := range r.Ctx.trusted {
			trusted[t] = true
		}
		for _, n := range r.Ctx.notes {
			notes[n] = true
		}
	}
	var tb []string
	for t := range trusted {
		tb = append(tb, "assumed contract: "+t)
	}
	sort.Strings(tb)
	tb = append(tb, "go/types + x/tools/go/ssa v0.29.0 front end", "govc SSA->SMT semantics (exact machine integers as bit-vectors)", "SMT solvers (unsat answers)")
	cov["trusted_base"] = tb
	cov["functions_under_contract"] = fnNames
	cov["explanation"] = "obligations = safety (idx/slice/nil/div/conv/alloc/panic), pre/post/inv/dec clauses and spec lemmas generated from /repo's current source; discharged = proved unsat for all inputs (no bound) unless listed under bounded"
	bnotes := append([]string{}, cfg.Bounded...)
	bnotes = append(bnotes, quickSubsets...)
	for _, r := range results {
		if r.Contract != nil && r.Contract.Opts["bounded"] != "" {
			bnotes = append(bnotes, fmt.Sprintf("%s: %s (%d obligations; a bounded stand-in, not counted as proved)", r.Name, r.Contract.Opts["bounded"], len(r.Obls)))
		}
	}
	if len(bnotes) > 0 {
		cov["bounded"] = bnotes
	}
	if len(lines) > 0 {
		cov["report_lines"] = lines
	}
	var approx []string
	for n := range notes {
		approx = append(approx, n)
	}
	sort.Strings(approx)
	assum := append([]string{}, cfg.Assume...)
	assum = append(assum, approx...)
	ev := map[string]interface{}{
		"property_id": prop, "tier": tier, "seed": seed, "level": level, "coverage": cov, "assumptions": assum, "wall_s": round3(wall), "violations": violations,
	}
	if level != "proof" {
		// generic keys for non-proof levels
		cov["evaluations"] = nObl
		cov["distinct_nontrivial"] = nDis
		cov["rule"] = "one evaluation per generated obligation; non-trivial = needed a solver call"
	}
	b, _ := json.MarshalIndent(ev, "", " ")
	os.MkdirAll(filepath.Join(verifDir(), "evidence"), 0o755)
	os.WriteFile(filepath.Join(verifDir(), "evidence", prop+".json"), b, 0o644)
}
