package main

import (
	"fmt"
	"go/ast"
	"go/constant"
	"go/token"
	"go/types"
	"math/big"
	"strconv"
	"strings"

	"golang.org/x/tools/go/ssa"
)

func (x *Exec) valueOf(fr *Frame, v ssa.Value) (Val, error) {
	switch v := v.(type) {
	case *ssa.Const:
		return x.constVal(v)
	case *ssa.Function:
		return FuncV{Fn: v}, nil
	case *ssa.Builtin:
		return BuiltinV{Name: v.Name()}, nil
	case *ssa.Global:
		return x.globalPtr(v), nil
	}
	if val, ok := fr.Env[v]; ok {
		return val, nil
	}
	return nil, fmt.Errorf("internal: no value for %s (%T) in %s", v.Name(), v, fr.Fn.Name())
}

func (x *Exec) globalPtr(g *ssa.Global) PtrV {
	id, ok := x.globals[g]
	if !ok {
		id = len(x.globals) + 1
		x.globals[g] = id
	}
	p := x.PtrFromTerm(BVInt(int64(id), 32), g.Type())
	p.NonNil = true
	if x.globalPinned == nil {
		x.globalPinned = map[*ssa.Global]bool{}
	}
	if !x.globalPinned[g] {
		x.constrainGlobal(g, p)
	}
	return p
}

const globalRefLimit = 4096 // refs below this are reserved for package-level variables

func (x *Exec) constVal(c *ssa.Const) (Val, error) {
	t := c.Type()
	if c.Value == nil {
		// zero value of the type (nil pointer, nil slice, zero struct, ...)
		return x.zeroVal(t), nil
	}
	switch u := t.Underlying().(type) {
	case *types.Basic:
		if w, _ := intWidth(u); w > 0 {
			iv, ok := constant.Val(constant.ToInt(c.Value)).(*big.Int)
			if !ok {
				i64, exact := constant.Int64Val(constant.ToInt(c.Value))
				if !exact {
					u64, _ := constant.Uint64Val(constant.ToInt(c.Value))
					return TV{T: BVUint(u64, w), Typ: t}, nil
				}
				return TV{T: BVInt(i64, w), Typ: t}, nil
			}
			return TV{T: BVConst(iv, w), Typ: t}, nil
		}
		switch u.Kind() {
		case types.Bool, types.UntypedBool:
			return TV{T: BoolConst(constant.BoolVal(c.Value)), Typ: t}, nil
		case types.String, types.UntypedString:
			return TV{T: x.C.StrConst(constant.StringVal(c.Value)), Typ: t}, nil
		case types.Float64, types.Float32, types.UntypedFloat:
			return TV{T: x.C.Fresh("fconst", SF64), Typ: t}, nil
		}
	}
	return nil, unsupported("constant %s of type %s", c, t)
}

func (x *Exec) tv(fr *Frame, v ssa.Value) (TV, error) {
	val, err := x.valueOf(fr, v)
	if err != nil {
		return TV{}, err
	}
	switch val := val.(type) {
	case TV:
		return val, nil
	case PtrV:
		t, err := x.PtrTerm(val)
		if err != nil {
			return TV{}, unsupported("%v", err)
		}
		return TV{T: t, Typ: val.Typ}, nil
	case FuncV:
		t, err := x.toTerm(val)
		if err != nil {
			return TV{}, unsupported("%v", err)
		}
		return TV{T: t, Typ: v.Type()}, nil
	}
	return TV{}, fmt.Errorf("value %s is %T, not a term", v.Name(), val)
}

func (x *Exec) execInstr(fr *Frame, st *State, ins ssa.Instruction) error {
	switch ins := ins.(type) {
	case *ssa.DebugRef:
		if id, ok := ins.Expr.(interface{ String() string }); ok && !ins.IsAddr {
			_ = id
		}
		if obj := ins.Object(); obj != nil && !ins.IsAddr {
			fr.Names[obj.Name()] = append(fr.Names[obj.Name()], ins.X)
		}
		return nil
	case *ssa.Alloc:
		elem := ins.Type().Underlying().(*types.Pointer).Elem()
		fr.Env[ins] = x.Alloc(st, elem, ins.Type())
		if pv, ok := fr.Env[ins].(PtrV); ok && x.privateAlloc(ins) {
			x.livePriv = append(x.livePriv, pv)
		}
		if ins.Comment != "" {
			fr.Names["&"+ins.Comment] = append(fr.Names["&"+ins.Comment], ins)
		}
		return nil
	case *ssa.BinOp:
		a, err := x.valueOf(fr, ins.X)
		if err != nil {
			return err
		}
		b, err := x.valueOf(fr, ins.Y)
		if err != nil {
			return err
		}
		r, err := x.binop(fr, st, ins, ins.Op, a, b, ins.X.Type(), ins.Y.Type(), ins.Type())
		if err != nil {
			return err
		}
		fr.Env[ins] = x.nameVal(ins.Name(), r)
		return nil
	case *ssa.UnOp:
		return x.unop(fr, st, ins)
	case *ssa.ChangeType:
		v, err := x.valueOf(fr, ins.X)
		if err != nil {
			return err
		}
		fr.Env[ins] = retype(v, ins.Type())
		return nil
	case *ssa.Convert:
		return x.convert(fr, st, ins)
	case *ssa.ChangeInterface:
		v, err := x.valueOf(fr, ins.X)
		if err != nil {
			return err
		}
		fr.Env[ins] = retype(v, ins.Type())
		return nil
	case *ssa.MakeInterface:
		v, err := x.valueOf(fr, ins.X)
		if err != nil {
			return err
		}
		iv, err := x.makeIface(st, v, ins.X.Type())
		if err != nil {
			if pv, ok := v.(PtrV); ok && len(pv.Path) > 0 {
				// an interior pointer has no term representation: the interface value is opaque (non-nil); models that
				// look through the MakeInterface instruction (binary.Read) still see the pointer itself
				iv = x.C.Fresh("iface_interior", SIface)
				x.C.Assume(Not(Eq(iv, x.C.zeroOfSort(SIface, nil))), "interface holding an interior pointer is not nil")
				x.C.Note("interior pointer stored in an interface: opaque interface value")
			} else {
				return err
			}
		}
		named := x.C.Name(ins.Name(), iv)
		if x.ifaceOrigin == nil {
			x.ifaceOrigin = map[string]ifaceOrg{}
		}
		if _, isIface := ins.X.Type().Underlying().(*types.Interface); !isIface {
			x.ifaceOrigin[named.S] = ifaceOrg{Typ: ins.X.Type(), Val: v}
		}
		fr.Env[ins] = TV{T: named, Typ: ins.Type()}
		return nil
	case *ssa.TypeAssert:
		return x.typeAssert(fr, st, ins)
	case *ssa.Extract:
		v, err := x.valueOf(fr, ins.Tuple)
		if err != nil {
			return err
		}
		tup, ok := v.(TupleV)
		if !ok {
			return fmt.Errorf("extract from non-tuple %T", v)
		}
		fr.Env[ins] = tup[ins.Index]
		return nil
	case *ssa.Field:
		v, err := x.tv(fr, ins.X)
		if err != nil {
			return err
		}
		si := x.C.StructInfo(ins.X.Type())
		t := x.C.Name(ins.Name(), App(si.FSorts[ins.Field], si.Fields[ins.Field], v.T))
		fr.Env[ins] = x.fromLoaded(st, t, ins.Type())
		return nil
	case *ssa.FieldAddr:
		v, err := x.valueOf(fr, ins.X)
		if err != nil {
			return err
		}
		p, ok := v.(PtrV)
		if !ok {
			return fmt.Errorf("FieldAddr on %T", v)
		}
		if len(p.Path) == 0 && !p.NonNil {
			x.obligation(fr, ins, "nil", st.PC, Not(Eq(p.Base, BVInt(0, 32))), "nil pointer dereference")
			x.C.Assume(Implies(x.absPC(st.PC),Not(Eq(p.Base, BVInt(0, 32)))), "continuing past nil check")
		}
		np := p
		np.Path = append(append([]Step{}, p.Path...), Step{IsField: true, Field: ins.Field})
		np.Typ = ins.Type()
		fr.Env[ins] = np
		return nil
	case *ssa.Index:
		return x.index(fr, st, ins)
	case *ssa.IndexAddr:
		return x.indexAddr(fr, st, ins)
	case *ssa.Lookup:
		return x.lookup(fr, st, ins)
	case *ssa.Store:
		pv, err := x.valueOf(fr, ins.Addr)
		if err != nil {
			return err
		}
		p, ok := pv.(PtrV)
		if !ok {
			return fmt.Errorf("store to %T", pv)
		}
		v, err := x.valueOf(fr, ins.Val)
		if err != nil {
			return err
		}
		if len(p.Path) == 0 && !p.NonNil {
			x.obligation(fr, ins, "nil", st.PC, Not(Eq(p.Base, BVInt(0, 32))), "nil pointer store")
		}
		if err := x.Store(st, p, v); err != nil {
			return unsupported("%v at %s", err, x.P.RelPos(ins.Pos()))
		}
		return nil
	case *ssa.MakeSlice:
		return x.makeSlice(fr, st, ins)
	case *ssa.Slice:
		return x.sliceOp(fr, st, ins)
	case *ssa.SliceToArrayPointer:
		return x.sliceToArrayPtr(fr, st, ins)
	case *ssa.MakeMap:
		return x.makeMap(fr, st, ins)
	case *ssa.MapUpdate:
		return x.mapUpdate(fr, st, ins)
	case *ssa.MakeClosure:
		fn := ins.Fn.(*ssa.Function)
		var binds []Val
		for _, b := range ins.Bindings {
			v, err := x.valueOf(fr, b)
			if err != nil {
				return err
			}
			binds = append(binds, v)
		}
		fr.Env[ins] = FuncV{Fn: fn, Bindings: binds}
		return nil
	case *ssa.Call:
		res, err := x.doCall(fr, st, &ins.Call, ins, nil, nil)
		if err != nil {
			return err
		}
		if res != nil {
			fr.Env[ins] = res
		}
		return nil
	case *ssa.Defer:
		// deferred no-effect calls are dropped; others are run at RunDefers (only if unconditional on this path)
		if x.isNoEffectCall(&ins.Call) {
			return nil
		}
		var vals []Val
		for _, a := range ins.Call.Args {
			v, err := x.valueOf(fr, a)
			if err != nil {
				return err
			}
			vals = append(vals, v)
		}
		var fnv Val
		if !ins.Call.IsInvoke() {
			v, err := x.valueOf(fr, ins.Call.Value)
			if err != nil {
				return err
			}
			fnv = v
		}
		if !st.PC.IsTrue() && len(fr.RPO) > 1 && ins.Block() != fr.Fn.Blocks[0] {
			return unsupported("conditional defer in %s", fr.Fn.Name())
		}
		fr.Defers = append(fr.Defers, deferred{call: &ins.Call, vals: vals, fnv: fnv})
		return nil
	case *ssa.RunDefers:
		return nil // handled at Return
	case *ssa.Range:
		return x.rangeInit(fr, st, ins)
	case *ssa.Next:
		return x.rangeNext(fr, st, ins)
	case *ssa.Go:
		return unsupported("goroutine in %s", fr.Fn.Name())
	case *ssa.Select:
		return unsupported("select in %s", fr.Fn.Name())
	case *ssa.Send:
		return unsupported("channel send in %s", fr.Fn.Name())
	case *ssa.MultiConvert:
		return unsupported("generic multi-convert in %s", fr.Fn.Name())
	}
	return unsupported("instruction %T in %s", ins, fr.Fn.Name())
}

func retype(v Val, t types.Type) Val {
	switch v := v.(type) {
	case TV:
		return TV{T: v.T, Typ: t}
	case PtrV:
		v.Typ = t
		return v
	}
	return v
}

func (x *Exec) binop(fr *Frame, st *State, ins ssa.Instruction, op token.Token, a, b Val, ta, tb, tres types.Type) (Val, error) {
	// pointer comparisons
	if pa, ok := a.(PtrV); ok {
		pb, ok2 := b.(PtrV)
		if !ok2 {
			return nil, fmt.Errorf("pointer compared with %T", b)
		}
		eq, err := x.ptrEq(pa, pb)
		if err != nil {
			return nil, err
		}
		switch op {
		case token.EQL:
			return TV{T: eq, Typ: tres}, nil
		case token.NEQ:
			return TV{T: Not(eq), Typ: tres}, nil
		}
		return nil, unsupported("pointer op %s", op)
	}
	if _, ok := a.(FuncV); ok {
		ta2, e1 := x.toTerm(a)
		tb2, e2 := x.toTerm(b)
		if e1 != nil || e2 != nil {
			return nil, unsupported("closure comparison")
		}
		a, b = TV{T: ta2, Typ: ta}, TV{T: tb2, Typ: tb}
	}
	if _, ok := b.(FuncV); ok {
		tb2, e2 := x.toTerm(b)
		if e2 != nil {
			return nil, unsupported("closure comparison")
		}
		b = TV{T: tb2, Typ: tb}
	}
	av, ok1 := a.(TV)
	bv, ok2 := b.(TV)
	if !ok1 || !ok2 {
		return nil, fmt.Errorf("binop on %T, %T", a, b)
	}
	A, B := av.T, bv.T
	if w, signed, isInt := isInteger(ta); isInt && op != token.EQL && op != token.NEQ || (isInt && (op == token.EQL || op == token.NEQ)) {
		switch op {
		case token.ADD:
			return TV{T: bvBin("bvadd", A, B), Typ: tres}, nil
		case token.SUB:
			return TV{T: bvBin("bvsub", A, B), Typ: tres}, nil
		case token.MUL:
			return TV{T: bvBin("bvmul", A, B), Typ: tres}, nil
		case token.QUO, token.REM:
			zero := BVInt(0, w)
			if ins != nil {
				x.obligation(fr, ins, "div", st.PC, Not(Eq(B, zero)), "integer divide by zero")
				x.C.Assume(Implies(x.absPC(st.PC),Not(Eq(B, zero))), "continuing past divide check")
			}
			var o string
			switch {
			case op == token.QUO && signed:
				o = "bvsdiv"
			case op == token.QUO:
				o = "bvudiv"
			case signed:
				o = "bvsrem"
			default:
				return TV{T: x.urem(A, B), Typ: tres}, nil
			}
			return TV{T: bvBin(o, A, B), Typ: tres}, nil
		case token.AND:
			return TV{T: bvBin("bvand", A, B), Typ: tres}, nil
		case token.OR:
			return TV{T: bvBin("bvor", A, B), Typ: tres}, nil
		case token.XOR:
			return TV{T: bvBin("bvxor", A, B), Typ: tres}, nil
		case token.AND_NOT:
			return TV{T: bvBin("bvand", A, App(B.Sort, "bvnot", B)), Typ: tres}, nil
		case token.SHL, token.SHR:
			wb, sb, _ := isInteger(tb)
			if sb && ins != nil {
				x.obligation(fr, ins, "shift", st.PC, bvCmp("bvsge", B, BVInt(0, wb)), "negative shift count")
			}
			// normalise count to width w
			var cnt Term
			var big Term = TFalse
			if wb > w {
				big = bvCmp("bvuge", B, BVInt(int64(w), wb))
				cnt = Extract(w-1, 0, B)
			} else {
				cnt = ZeroExt(B, w)
			}
			var r Term
			if op == token.SHL {
				r = Ite(big, BVInt(0, w), bvBin("bvshl", A, cnt))
			} else if signed {
				r = Ite(big, bvBin("bvashr", A, BVInt(int64(w-1), w)), bvBin("bvashr", A, cnt))
			} else {
				r = Ite(big, BVInt(0, w), bvBin("bvlshr", A, cnt))
			}
			return TV{T: r, Typ: tres}, nil
		case token.EQL:
			return TV{T: Eq(A, B), Typ: tres}, nil
		case token.NEQ:
			return TV{T: Not(Eq(A, B)), Typ: tres}, nil
		case token.LSS, token.LEQ, token.GTR, token.GEQ:
			p := "bvu"
			if signed {
				p = "bvs"
			}
			suffix := map[token.Token]string{token.LSS: "lt", token.LEQ: "le", token.GTR: "gt", token.GEQ: "ge"}[op]
			return TV{T: bvCmp(p+suffix, A, B), Typ: tres}, nil
		}
		return nil, unsupported("integer op %s", op)
	}
	switch u := ta.Underlying().(type) {
	case *types.Basic:
		switch {
		case u.Info()&types.IsBoolean != 0:
			switch op {
			case token.EQL:
				return TV{T: Eq(A, B), Typ: tres}, nil
			case token.NEQ:
				return TV{T: Not(Eq(A, B)), Typ: tres}, nil
			case token.LAND:
				return TV{T: And(A, B), Typ: tres}, nil
			case token.LOR:
				return TV{T: Or(A, B), Typ: tres}, nil
			}
		case u.Info()&types.IsString != 0:
			switch op {
			case token.EQL:
				return TV{T: Eq(A, B), Typ: tres}, nil
			case token.NEQ:
				return TV{T: Not(Eq(A, B)), Typ: tres}, nil
			case token.ADD:
				x.C.Note("string concatenation abstracted (fresh string)")
				return TV{T: x.C.Fresh("strcat", SStr), Typ: tres}, nil
			}
			x.C.Note("string ordering abstracted (fresh bool)")
			return TV{T: x.C.Fresh("strcmp", SBool), Typ: tres}, nil
		case u.Info()&types.IsFloat != 0:
			x.C.Note("floating point abstracted (fresh value)")
			if _, isb := tres.Underlying().(*types.Basic); isb && tres.Underlying().(*types.Basic).Info()&types.IsBoolean != 0 {
				return TV{T: x.C.Fresh("fcmp", SBool), Typ: tres}, nil
			}
			return TV{T: x.C.Fresh("fop", SF64), Typ: tres}, nil
		}
	case *types.Slice:
		// only comparison with nil
		var s Term
		if isNilConst(A) {
			s = B
		} else {
			s = A
		}
		isnil := Eq(SlBase(s), BVInt(0, 32))
		if op == token.EQL {
			return TV{T: isnil, Typ: tres}, nil
		}
		return TV{T: Not(isnil), Typ: tres}, nil
	case *types.Map, *types.Chan, *types.Signature:
		if op == token.EQL {
			return TV{T: Eq(A, B), Typ: tres}, nil
		}
		return TV{T: Not(Eq(A, B)), Typ: tres}, nil
	case *types.Interface:
		eq := x.ifaceEq(A, B)
		if op == token.EQL {
			return TV{T: eq, Typ: tres}, nil
		}
		return TV{T: Not(eq), Typ: tres}, nil
	case *types.Array, *types.Struct:
		eq, err := x.deepEq(ta, A, B)
		if err != nil {
			return nil, err
		}
		if op == token.EQL {
			return TV{T: eq, Typ: tres}, nil
		}
		return TV{T: Not(eq), Typ: tres}, nil
	}
	return nil, unsupported("binop %s on %s", op, ta)
}

func isNilConst(t Term) bool {
	return t.S == "(mk-slice #x00000000 #x0000000000000000 #x0000000000000000 #x0000000000000000)"
}

func (x *Exec) ifaceEq(a, b Term) Term {
	nilI := "(mk-iface #x00000000 #x0000000000000000)"
	if a.S != nilI && b.S != nilI {
		x.C.Note("interface equality approximated by identity of (type, boxed reference)")
	}
	return Eq(a, b)
}

func (x *Exec) ptrEq(a, b PtrV) (Term, error) {
	if a.Region != b.Region {
		// different regions can only be equal when both nil
		return And(Eq(a.Base, BVInt(0, 32)), Eq(b.Base, BVInt(0, 32))), nil
	}
	if len(a.Path) != len(b.Path) {
		return TFalse, nil
	}
	conj := []Term{Eq(a.Base, b.Base)}
	for i := range a.Path {
		sa, sb := a.Path[i], b.Path[i]
		if sa.IsField != sb.IsField || (sa.IsField && sa.Field != sb.Field) {
			return TFalse, nil
		}
		if !sa.IsField {
			conj = append(conj, Eq(sa.Index, sb.Index))
		}
	}
	return And(conj...), nil
}

// deepEq: Go == on arrays/structs (element-wise, bounded).
func (x *Exec) deepEq(t types.Type, a, b Term) (Term, error) {
	switch u := t.Underlying().(type) {
	case *types.Array:
		n := u.Len()
		if n > 256 {
			return Term{}, unsupported("array equality of length %d", n)
		}
		var conj []Term
		for i := int64(0); i < n; i++ {
			idx := BVInt(i, 64)
			e, err := x.deepEq(u.Elem(), Select(a, idx), Select(b, idx))
			if err != nil {
				return Term{}, err
			}
			conj = append(conj, e)
		}
		return And(conj...), nil
	case *types.Struct:
		si := x.C.StructInfo(t)
		var conj []Term
		for i := 0; i < u.NumFields(); i++ {
			e, err := x.deepEq(u.Field(i).Type(), App(si.FSorts[i], si.Fields[i], a), App(si.FSorts[i], si.Fields[i], b))
			if err != nil {
				return Term{}, err
			}
			conj = append(conj, e)
		}
		return And(conj...), nil
	case *types.Interface:
		return x.ifaceEq(a, b), nil
	case *types.Slice:
		return Term{}, unsupported("slice equality")
	}
	return Eq(a, b), nil
}

func (x *Exec) unop(fr *Frame, st *State, ins *ssa.UnOp) error {
	v, err := x.valueOf(fr, ins.X)
	if err != nil {
		return err
	}
	switch ins.Op {
	case token.MUL:
		p, ok := v.(PtrV)
		if !ok {
			return fmt.Errorf("deref of %T", v)
		}
		if len(p.Path) == 0 && !p.NonNil {
			x.obligation(fr, ins, "nil", st.PC, Not(Eq(p.Base, BVInt(0, 32))), "nil pointer dereference")
		}
		lv, err := x.Load(st, p)
		if err != nil {
			return unsupported("%v", err)
		}
		if g, ok := ins.X.(*ssa.Global); ok {
			// sentinel error variables (io.EOF, ErrXxx = errors.New(...)) are never nil
			if tv, ok := lv.(TV); ok && tv.T.Sort == SIface && (strings.HasPrefix(g.Name(), "Err") || g.Name() == "EOF") {
				x.C.Assume(Not(Eq(tv.T, x.C.zeroOfSort(SIface, nil))), "sentinel error variable "+g.String()+" is non-nil")
				x.C.trusted["sentinel error variables (ErrXxx, io.EOF) are non-nil and never reassigned"] = true
			}
		}
		fr.Env[ins] = lv
		return nil
	case token.NOT:
		fr.Env[ins] = TV{T: Not(v.(TV).T), Typ: ins.Type()}
		return nil
	case token.SUB:
		t := v.(TV).T
		if t.Sort == SF64 {
			fr.Env[ins] = TV{T: x.C.Fresh("fneg", SF64), Typ: ins.Type()}
			return nil
		}
		fr.Env[ins] = TV{T: x.C.Name(ins.Name(), bvBin("bvsub", BVInt(0, t.Sort.BVWidth()), t)), Typ: ins.Type()}
		return nil
	case token.XOR:
		t := v.(TV).T
		if t.isConst {
			n := t.Sort.BVWidth()
			fr.Env[ins] = TV{T: BVConst(new(big.Int).Xor(t.cval, mask(n)), n), Typ: ins.Type()}
			return nil
		}
		fr.Env[ins] = TV{T: x.C.Name(ins.Name(), App(t.Sort, "bvnot", t)), Typ: ins.Type()}
		return nil
	case token.ARROW:
		return unsupported("channel receive in %s", fr.Fn.Name())
	}
	return unsupported("unop %s", ins.Op)
}

func (x *Exec) convert(fr *Frame, st *State, ins *ssa.Convert) error {
	v, err := x.valueOf(fr, ins.X)
	if err != nil {
		return err
	}
	from, to := ins.X.Type(), ins.Type()
	wf, sf, fi := isInteger(from)
	wt, _, ti := isInteger(to)
	_ = wf
	switch {
	case fi && ti:
		fr.Env[ins] = TV{T: x.C.Name(ins.Name(), Resize(v.(TV).T, wt, sf)), Typ: to}
		return nil
	}
	// string <-> []byte, etc.
	fb, fok := from.Underlying().(*types.Basic)
	tb, tok := to.Underlying().(*types.Basic)
	if tok && tb.Info()&types.IsString != 0 {
		// []byte/rune/int -> string
		s := x.C.Fresh("str", SStr)
		if _, isSl := from.Underlying().(*types.Slice); isSl {
			x.C.Assume(Eq(App(SIdx, "str_len", s), SlLen(v.(TV).T)), "len(string(b)) == len(b)")
		}
		x.C.Note("string contents abstracted")
		fr.Env[ins] = TV{T: s, Typ: to}
		return nil
	}
	if fok && fb.Info()&types.IsString != 0 {
		if sl, isSl := to.Underlying().(*types.Slice); isSl {
			// string -> []byte : fresh backing with unknown contents, len = str_len
			content := x.C.Fresh("strbytes", SArr(SIdx, x.C.SortOf(sl.Elem())))
			ref := x.AllocBacking(st, sl.Elem(), &content)
			ln := App(SIdx, "str_len", v.(TV).T)
			x.C.Assume(bvCmp("bvule", ln, BVUint(1<<40, 64)), "string length bound")
			x.C.Note("string contents abstracted")
			fr.Env[ins] = TV{T: x.C.Name(ins.Name(), MkSlice(ref, BVInt(0, 64), ln, ln)), Typ: to}
			return nil
		}
	}
	if (fok && fb.Info()&types.IsFloat != 0) || (tok && tb.Info()&types.IsFloat != 0) {
		// floating point is not interpreted; conversions are uninterpreted *functions* so that equal inputs give equal outputs
		x.C.Note("floating point abstracted: int<->float conversions and math.Sqrt are uninterpreted functions (deterministic, otherwise unconstrained)")
		tvv, isTV := v.(TV)
		switch {
		case isTV && fi && tok && tb.Info()&types.IsFloat != 0:
			fr.Env[ins] = TV{T: x.C.Name(ins.Name(), App(SF64, "f64_of_bv64", Resize(tvv.T, 64, sf))), Typ: to}
		case isTV && ti && fok && fb.Info()&types.IsFloat != 0:
			fr.Env[ins] = TV{T: x.C.Name(ins.Name(), Resize(App(SBV(64), "bv64_of_f64", tvv.T), wt, true)), Typ: to}
		case isTV && tvv.T.Sort == SF64 && x.C.SortOf(to) == SF64:
			fr.Env[ins] = TV{T: tvv.T, Typ: to}
		default:
			fr.Env[ins] = TV{T: x.C.Fresh("fconv", x.C.SortOf(to)), Typ: to}
		}
		return nil
	}
	if _, ok := to.Underlying().(*types.Pointer); ok {
		// unsafe.Pointer conversions
		return unsupported("unsafe pointer conversion in %s", fr.Fn.Name())
	}
	return unsupported("conversion %s -> %s", from, to)
}

func (x *Exec) makeIface(st *State, v Val, t types.Type) (Term, error) {
	tid := BVInt(int64(x.C.TypeID(t)), 32)
	switch v := v.(type) {
	case PtrV:
		b, err := x.PtrTerm(v)
		if err != nil {
			return Term{}, unsupported("%v", err)
		}
		return App(SIface, "mk-iface", tid, ZeroExt(b, 64)), nil
	case TV:
		if w := v.T.Sort.BVWidth(); w > 0 && w <= 64 {
			return App(SIface, "mk-iface", tid, ZeroExt(v.T, 64)), nil
		}
		if v.T.Sort == SBool {
			return App(SIface, "mk-iface", tid, Ite(v.T, BVInt(1, 64), BVInt(0, 64))), nil
		}
		// box
		p := x.Alloc(st, t, nil)
		if err := x.Store(st, p, v); err != nil {
			return Term{}, err
		}
		return App(SIface, "mk-iface", tid, ZeroExt(p.Base, 64)), nil
	case FuncV:
		tt, err := x.toTerm(v)
		if err != nil {
			return Term{}, unsupported("%v", err)
		}
		return App(SIface, "mk-iface", tid, ZeroExt(tt, 64)), nil
	}
	return Term{}, unsupported("MakeInterface of %T", v)
}

func (x *Exec) unboxIface(st *State, iv Term, t types.Type) (Val, error) {
	val := App(SBV(64), "if-val", iv)
	switch t.Underlying().(type) {
	case *types.Pointer:
		return x.PtrFromTerm(Extract(31, 0, val), t), nil
	}
	s := x.C.SortOf(t)
	if w := s.BVWidth(); w > 0 {
		return TV{T: Extract(w-1, 0, val), Typ: t}, nil
	}
	if s == SBool {
		return TV{T: Not(Eq(val, BVInt(0, 64))), Typ: t}, nil
	}
	if _, ok := t.Underlying().(*types.Interface); ok {
		return TV{T: iv, Typ: t}, nil
	}
	p := x.PtrFromTerm(Extract(31, 0, val), types.NewPointer(t))
	return x.Load(st, p)
}

func (x *Exec) typeAssert(fr *Frame, st *State, ins *ssa.TypeAssert) error {
	v, err := x.tv(fr, ins.X)
	if err != nil {
		return err
	}
	at := ins.AssertedType
	var ok Term
	if _, isIface := at.Underlying().(*types.Interface); isIface {
		// conversion to another interface: succeeds iff non-nil (method set satisfaction abstracted)
		ok = Not(Eq(App(SRef, "if-typ", v.T), BVInt(0, 32)))
		if it := at.Underlying().(*types.Interface); it.NumMethods() > 0 {
			if _, fromIface := ins.X.Type().Underlying().(*types.Interface); fromIface && !types.Implements(ins.X.Type(), it) {
				// the static type does not guarantee the method set: decided by the dynamic type
				ok = And(ok, x.C.Implements(App(SRef, "if-typ", v.T), at))
				x.C.Note("interface-to-interface assertion decided by the dynamic type: exact for the concrete types met in this run, unconstrained for an unknown dynamic type")
			}
		}
	} else {
		ok = Eq(App(SRef, "if-typ", v.T), BVInt(int64(x.C.TypeID(at)), 32))
	}
	ok = x.C.Name("taok", ok)
	var res Val
	if _, isIface := at.Underlying().(*types.Interface); isIface {
		res = TV{T: v.T, Typ: at}
	} else {
		res, err = x.unboxIface(st, v.T, at)
		if err != nil {
			return err
		}
	}
	if ins.CommaOk {
		// on failure the value is the zero value
		z := x.zeroVal(at)
		m, err := x.mergeVal(ok, res, z)
		if err != nil {
			return err
		}
		fr.Env[ins] = TupleV{x.nameVal(ins.Name(), m), TV{T: ok, Typ: types.Typ[types.Bool]}}
		return nil
	}
	x.obligation(fr, ins, "panic", st.PC, ok, "type assertion fails")
	x.C.Assume(Implies(x.absPC(st.PC),ok), "continuing past type assertion")
	fr.Env[ins] = res
	return nil
}

func (x *Exec) index(fr *Frame, st *State, ins *ssa.Index) error {
	a, err := x.tv(fr, ins.X)
	if err != nil {
		return err
	}
	i, err := x.tv(fr, ins.Index)
	if err != nil {
		return err
	}
	iw, isg, _ := isInteger(ins.Index.Type())
	idx := Resize(i.T, 64, isg)
	_ = iw
	switch u := ins.X.Type().Underlying().(type) {
	case *types.Array:
		x.obligation(fr, ins, "idx", st.PC, bvCmp("bvult", idx, BVInt(u.Len(), 64)), "array index out of range")
		x.C.Assume(Implies(x.absPC(st.PC),bvCmp("bvult", idx, BVInt(u.Len(), 64))), "continuing past bounds check")
		fr.Env[ins] = x.fromLoaded(st, x.C.Name(ins.Name(), Select(a.T, idx)), ins.Type())
		return nil
	case *types.Basic: // string
		ln := App(SIdx, "str_len", a.T)
		x.obligation(fr, ins, "idx", st.PC, bvCmp("bvult", idx, ln), "string index out of range")
		fr.Env[ins] = TV{T: x.C.Fresh("strbyte", SBV(8)), Typ: ins.Type()}
		return nil
	}
	return unsupported("Index on %s", ins.X.Type())
}

func (x *Exec) indexAddr(fr *Frame, st *State, ins *ssa.IndexAddr) error {
	bv, err := x.valueOf(fr, ins.X)
	if err != nil {
		return err
	}
	i, err := x.tv(fr, ins.Index)
	if err != nil {
		return err
	}
	_, isg, _ := isInteger(ins.Index.Type())
	idx := Resize(i.T, 64, isg)
	switch u := ins.X.Type().Underlying().(type) {
	case *types.Slice:
		s := bv.(TV).T
		ln := SlLen(s)
		x.obligation(fr, ins, "idx", st.PC, bvCmp("bvult", idx, ln), "slice index out of range")
		x.C.Assume(Implies(x.absPC(st.PC),bvCmp("bvult", idx, ln)), "continuing past bounds check")
		r, _ := x.elemRegion(u.Elem())
		fr.Env[ins] = PtrV{Region: r, RootT: u.Elem(), Base: SlBase(s), Path: []Step{{Index: x.C.Name("ix", bvBin("bvadd", SlOff(s), idx))}}, Typ: ins.Type(), Snap: x.isSnap(s)}
		return nil
	case *types.Pointer:
		arr := u.Elem().Underlying().(*types.Array)
		p := bv.(PtrV)
		if len(p.Path) == 0 && !p.NonNil {
			x.obligation(fr, ins, "nil", st.PC, Not(Eq(p.Base, BVInt(0, 32))), "nil array pointer")
		}
		x.obligation(fr, ins, "idx", st.PC, bvCmp("bvult", idx, BVInt(arr.Len(), 64)), "array index out of range")
		x.C.Assume(Implies(x.absPC(st.PC),bvCmp("bvult", idx, BVInt(arr.Len(), 64))), "continuing past bounds check")
		np := p
		np.Path = append(append([]Step{}, p.Path...), Step{Index: idx})
		np.Typ = ins.Type()
		fr.Env[ins] = np
		return nil
	}
	return unsupported("IndexAddr on %s", ins.X.Type())
}

func (x *Exec) isSnap(s Term) bool { return false }

func (x *Exec) makeSlice(fr *Frame, st *State, ins *ssa.MakeSlice) error {
	l, err := x.tv(fr, ins.Len)
	if err != nil {
		return err
	}
	c, err := x.tv(fr, ins.Cap)
	if err != nil {
		return err
	}
	_, ls, _ := isInteger(ins.Len.Type())
	_, cs, _ := isInteger(ins.Cap.Type())
	ln := Resize(l.T, 64, ls)
	cp := Resize(c.T, 64, cs)
	elem := ins.Type().Underlying().(*types.Slice).Elem()
	lim := BVUint(1<<40, 64)
	ok := And(bvCmp("bvsge", ln, BVInt(0, 64)), bvCmp("bvsle", ln, cp), bvCmp("bvule", cp, lim))
	x.obligation(fr, ins, "alloc", st.PC, ok, "make: len out of range (negative, > cap, or > 2^40 elements)")
	if x.allocBound != nil {
		if _, isConst := cp.Const(); !isConst {
			// contract option `opt alloc=<expr>`: bytes allocated by a data-dependent make are bounded by the expression
			sz := types.SizesFor("gc", "amd64").Sizeof(elem)
			if sz < 1 {
				sz = 1
			}
			prop, err := x.allocBoundProp(st, cp, sz)
			if err != nil {
				return err
			}
			x.obligation(fr, ins, "allocbound", st.PC, Implies(ok, prop), fmt.Sprintf("bytes allocated (%d per element) exceed the declared bound %s", sz, x.allocBound.Text))
		}
	}
	x.C.Assume(Implies(x.absPC(st.PC),ok), "continuing past make check")
	ref := x.AllocBacking(st, elem, nil)
	fr.Env[ins] = TV{T: x.C.Name(ins.Name(), MkSlice(ref, BVInt(0, 64), ln, cp)), Typ: ins.Type()}
	return nil
}

// allocBoundProp: `count` elements of `sz` bytes stay within the byte bound declared by `opt alloc=<expr>`
// (count is a 64-bit term known to be at most 2^40). When the bound has the shape K*R + K0 with literal K >= sz and K0,
// the multiplication-free sufficient condition count <= R + K0/sz is used instead (count*sz <= R*sz + K0 <= R*K + K0).
func (x *Exec) allocBoundProp(st *State, count Term, sz int64) (Term, error) {
	if sz >= 1<<20 {
		return Term{}, unsupported("allocation of elements of %d bytes", sz)
	}
	env := x.newEnv(x.Top, nil, x.topContract, x.topArgs, st, st)
	if add, ok := x.allocBound.Expr.(*ast.BinaryExpr); ok && add.Op == token.ADD {
		if mul, ok := add.X.(*ast.BinaryExpr); ok && mul.Op == token.MUL {
			kl, ok1 := mul.X.(*ast.BasicLit)
			k0l, ok2 := add.Y.(*ast.BasicLit)
			if ok1 && ok2 {
				k, err1 := strconv.ParseInt(kl.Value, 0, 64)
				k0, err2 := strconv.ParseInt(k0l.Value, 0, 64)
				if err1 == nil && err2 == nil && k >= sz && k0 >= 0 && k < 1<<20 && k0 < 1<<40 {
					r, err := env.intArg(mul.Y, 64)
					if err != nil {
						return Term{}, fmt.Errorf("opt alloc: %v", err)
					}
					return And(bvCmp("bvule", r, BVUint(1<<40, 64)), bvCmp("bvule", count, bvBin("bvadd", r, BVInt(k0/sz, 64)))), nil
				}
			}
		}
	}
	bound, err := env.intArg(x.allocBound.Expr, 64)
	if err != nil {
		return Term{}, fmt.Errorf("opt alloc: %v", err)
	}
	// 64-bit arithmetic is exact: count <= 2^40 and sz < 2^20
	return bvCmp("bvule", bvBin("bvmul", count, BVInt(sz, 64)), bound), nil
}

func (x *Exec) sliceOp(fr *Frame, st *State, ins *ssa.Slice) error {
	bv, err := x.valueOf(fr, ins.X)
	if err != nil {
		return err
	}
	get := func(v ssa.Value) (Term, bool, error) {
		if v == nil {
			return Term{}, false, nil
		}
		t, err := x.tv(fr, v)
		if err != nil {
			return Term{}, false, err
		}
		_, sg, _ := isInteger(v.Type())
		return Resize(t.T, 64, sg), true, nil
	}
	lo, hasLo, err := get(ins.Low)
	if err != nil {
		return err
	}
	hi, hasHi, err := get(ins.High)
	if err != nil {
		return err
	}
	mx, hasMax, err := get(ins.Max)
	if err != nil {
		return err
	}
	if !hasLo {
		lo = BVInt(0, 64)
	}
	switch u := ins.X.Type().Underlying().(type) {
	case *types.Slice:
		s := bv.(TV).T
		if !hasHi {
			hi = SlLen(s)
		}
		capT := SlCap(s)
		if !hasMax {
			mx = capT
		}
		ok := And(bvCmp("bvule", lo, hi), bvCmp("bvule", hi, mx), bvCmp("bvule", mx, capT))
		x.obligation(fr, ins, "slice", st.PC, ok, "slice bounds out of range")
		x.C.Assume(Implies(x.absPC(st.PC),ok), "continuing past slice bounds check")
		ns := MkSlice(SlBase(s), bvBin("bvadd", SlOff(s), lo), bvBin("bvsub", hi, lo), bvBin("bvsub", mx, lo))
		fr.Env[ins] = TV{T: x.C.Name(ins.Name(), ns), Typ: ins.Type()}
		return nil
	case *types.Pointer:
		arr := u.Elem().Underlying().(*types.Array)
		p := bv.(PtrV)
		n := BVInt(arr.Len(), 64)
		if !hasHi {
			hi = n
		}
		if !hasMax {
			mx = n
		}
		ok := And(bvCmp("bvule", lo, hi), bvCmp("bvule", hi, mx), bvCmp("bvule", mx, n))
		x.obligation(fr, ins, "slice", st.PC, ok, "slice bounds out of range")
		x.C.Assume(Implies(x.absPC(st.PC),ok), "continuing past slice bounds check")
		base := p.Base
		off := BVInt(0, 64)
		if len(p.Path) != 0 || p.Region[:2] != "E:" {
			// interior array: snapshot copy (read-only)
			av, err := x.Load(st, p)
			if err != nil {
				return unsupported("%v", err)
			}
			content := av.(TV).T
			base = x.AllocBacking(st, arr.Elem(), &content)
			x.C.Note("slice of an array embedded in a struct is modelled by a snapshot copy (writes through it unsupported)")
			x.snapRefs[base.S] = true
			if x.snapOrigins == nil {
				x.snapOrigins = map[string]snapOrigin{}
			}
			x.snapOrigins[base.S] = snapOrigin{P: p, Typ: u.Elem(), Epoch: st.Epoch, HeapS: st.Heap[p.Region].S}
		} else if len(p.Path) == 0 && !p.NonNil {
			x.obligation(fr, ins, "nil", st.PC, Not(Eq(p.Base, BVInt(0, 32))), "slicing nil array pointer")
		}
		ns := MkSlice(base, bvBin("bvadd", off, lo), bvBin("bvsub", hi, lo), bvBin("bvsub", mx, lo))
		fr.Env[ins] = TV{T: x.C.Name(ins.Name(), ns), Typ: ins.Type()}
		return nil
	case *types.Basic: // string
		s := bv.(TV).T
		ln := App(SIdx, "str_len", s)
		if !hasHi {
			hi = ln
		}
		ok := And(bvCmp("bvule", lo, hi), bvCmp("bvule", hi, ln))
		x.obligation(fr, ins, "slice", st.PC, ok, "string slice bounds out of range")
		ns := x.C.Fresh("substr", SStr)
		x.C.Assume(Eq(App(SIdx, "str_len", ns), bvBin("bvsub", hi, lo)), "len of substring")
		fr.Env[ins] = TV{T: ns, Typ: ins.Type()}
		return nil
	}
	return unsupported("Slice on %s", ins.X.Type())
}

func (x *Exec) sliceToArrayPtr(fr *Frame, st *State, ins *ssa.SliceToArrayPointer) error {
	sv, err := x.tv(fr, ins.X)
	if err != nil {
		return err
	}
	arr := ins.Type().Underlying().(*types.Pointer).Elem().Underlying().(*types.Array)
	s := sv.T
	ok := bvCmp("bvuge", SlLen(s), BVInt(arr.Len(), 64))
	x.obligation(fr, ins, "conv", st.PC, ok, "slice to array conversion: length too short")
	x.C.Assume(Implies(x.absPC(st.PC),ok), "continuing past conversion check")
	// materialise a fresh array object holding the N elements (copy semantics is what callers use: *(*[N]T)(s))
	if arr.Len() > 512 {
		return unsupported("slice to array of length %d", arr.Len())
	}
	r, hs := x.elemRegion(arr.Elem())
	h := x.heapGet(st, r, hs)
	src := Select(h, SlBase(s))
	content := ConstArray(SArr(SIdx, x.C.SortOf(arr.Elem())), x.C.Zero(arr.Elem()))
	for i := int64(0); i < arr.Len(); i++ {
		content = Store(content, BVInt(i, 64), Select(src, bvBin("bvadd", SlOff(s), BVInt(i, 64))))
	}
	content = x.C.Name("s2a", content)
	ref := x.AllocBacking(st, arr.Elem(), &content)
	x.snapRefs[ref.S] = true
	x.C.Note("slice-to-array-pointer conversion modelled by a snapshot copy (writes through it unsupported)")
	p := x.PtrFromTerm(ref, ins.Type())
	p.Snap = true
	fr.Env[ins] = p
	return nil
}
