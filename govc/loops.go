package main

import (
	"fmt"
	"go/ast"
	"go/types"
	"strings"

	"golang.org/x/tools/go/ssa"
)

// evalLValueAST evaluates an expression denoting a memory location to a pointer.
func evalLValueAST(env *EvalEnv, e interface{}) (PtrV, error) {
	x := env.X
	switch e := e.(type) {
	case *ast.ParenExpr:
		return evalLValueAST(env, e.X)
	case *ast.StarExpr:
		v, err := env.Eval(e.X)
		if err != nil {
			return PtrV{}, err
		}
		p, ok := v.(PtrV)
		if !ok {
			return PtrV{}, fmt.Errorf("*%s: not a pointer", exprString(e.X))
		}
		return p, nil
	case *ast.SelectorExpr:
		// base may be a pointer value or itself an lvalue of struct type
		var bp PtrV
		bv, err := env.Eval(e.X)
		if err == nil {
			if p, ok := bv.(PtrV); ok {
				bp = p
			} else {
				bp, err = evalLValueAST(env, e.X)
				if err != nil {
					return PtrV{}, err
				}
			}
		} else {
			bp, err = evalLValueAST(env, e.X)
			if err != nil {
				return PtrV{}, err
			}
		}
		elem := bp.Typ.Underlying().(*types.Pointer).Elem()
		st, ok := elem.Underlying().(*types.Struct)
		if !ok {
			return PtrV{}, fmt.Errorf("%s: not a struct", exprString(e.X))
		}
		for i := 0; i < st.NumFields(); i++ {
			if st.Field(i).Name() == e.Sel.Name {
				np := bp
				np.Path = append(append([]Step{}, bp.Path...), Step{IsField: true, Field: i})
				np.Typ = types.NewPointer(st.Field(i).Type())
				return np, nil
			}
		}
		return PtrV{}, fmt.Errorf("no field %s", e.Sel.Name)
	case *ast.IndexExpr:
		idx, err := env.intArg(e.Index, 64)
		if err != nil {
			return PtrV{}, err
		}
		bv, err := env.Eval(e.X)
		if err == nil {
			if tv, ok := bv.(TV); ok {
				if sl, ok := tv.Typ.Underlying().(*types.Slice); ok {
					r, _ := x.elemRegion(sl.Elem())
					return PtrV{Region: r, RootT: sl.Elem(), Base: SlBase(tv.T), Path: []Step{{Index: bvBin("bvadd", SlOff(tv.T), idx)}}, Typ: types.NewPointer(sl.Elem())}, nil
				}
			}
			if pv, ok := bv.(PtrV); ok {
				// p[i] with p a pointer to an array
				if arr, ok := pv.Typ.Underlying().(*types.Pointer).Elem().Underlying().(*types.Array); ok {
					np := pv
					np.Path = append(append([]Step{}, pv.Path...), Step{Index: idx})
					np.Typ = types.NewPointer(arr.Elem())
					return np, nil
				}
			}
		}
		bp, err := evalLValueAST(env, e.X)
		if err != nil {
			return PtrV{}, err
		}
		arr, ok := bp.Typ.Underlying().(*types.Pointer).Elem().Underlying().(*types.Array)
		if !ok {
			return PtrV{}, fmt.Errorf("%s: not an array", exprString(e.X))
		}
		np := bp
		np.Path = append(append([]Step{}, bp.Path...), Step{Index: idx})
		np.Typ = types.NewPointer(arr.Elem())
		return np, nil
	case *ast.Ident:
		v, err := env.Eval(e)
		if err != nil {
			return PtrV{}, err
		}
		if p, ok := v.(PtrV); ok {
			return p, nil
		}
		return PtrV{}, fmt.Errorf("%s is not a location", e.Name)
	case *ast.CallExpr:
		// a contract predicate whose body denotes a location
		id, ok := e.Fun.(*ast.Ident)
		if !ok || env.Fn == nil || x.DB == nil {
			break
		}
		rel := strings.TrimPrefix(pkgPathOf(env.Fn), modPath+"/")
		pd := x.DB.Preds[rel+"."+id.Name]
		if pd == nil || len(pd.Params) != len(e.Args) {
			break
		}
		var vals []Val
		for _, a := range e.Args {
			v, err := env.Eval(a)
			if err != nil {
				return PtrV{}, err
			}
			vals = append(vals, v)
		}
		saved := map[string]Val{}
		had := map[string]bool{}
		for i, pn := range pd.Params {
			saved[pn] = env.Vars[pn]
			_, had[pn] = env.Vars[pn]
			env.Vars[pn] = vals[i]
		}
		lv, err := evalLValueAST(env, pd.Body.Expr)
		for _, pn := range pd.Params {
			if had[pn] {
				env.Vars[pn] = saved[pn]
			} else {
				delete(env.Vars, pn)
			}
		}
		return lv, err
	}
	return PtrV{}, fmt.Errorf("unsupported location expression")
}

// phiValues computes the merged values of the phis of block b for the given incoming edges.
func (x *Exec) phiValues(fr *Frame, b *ssa.BasicBlock, in []Edge) ([]*ssa.Phi, []Val, error) {
	var phis []*ssa.Phi
	var vals []Val
	for _, ins := range b.Instrs {
		phi, ok := ins.(*ssa.Phi)
		if !ok {
			break
		}
		var cur Val
		for i := len(in) - 1; i >= 0; i-- {
			e := in[i]
			pi := predIndex(b, e.From)
			if pi < 0 {
				return nil, nil, fmt.Errorf("internal: edge from non-pred")
			}
			opv := phi.Edges[pi]
			var ov Val
			if lv, ok := e.Live[opv]; ok {
				ov = lv
			} else {
				var err error
				ov, err = x.valueOf(fr, opv)
				if err != nil {
					return nil, nil, err
				}
			}
			if i == len(in)-1 {
				cur = ov
			} else {
				m, err := x.mergeVal(e.St.PC, ov, cur)
				if err != nil {
					return nil, nil, unsupported("phi %s in %s: %v", phi.Name(), fr.Fn.Name(), err)
				}
				cur = m
			}
		}
		phis = append(phis, phi)
		vals = append(vals, x.nameVal(phi.Name()+"_"+phi.Comment, cur))
	}
	return phis, vals, nil
}

// havocLike returns a fresh symbolic value with the same shape as v.
func (x *Exec) havocLike(st *State, hint string, v Val, t types.Type) Val {
	switch v := v.(type) {
	case TV:
		nt := x.C.Fresh(hint, v.T.Sort)
		x.refAssume(st, nt, v.Typ)
		return TV{T: nt, Typ: v.Typ}
	case PtrV:
		np := v
		np.Base = x.C.Fresh(hint+"_base", SRef)
		x.C.Assume(bvCmp("bvult", np.Base, st.Brk), "heap-wf: loop-carried pointer allocated")
		np.Path = nil
		for _, s := range v.Path {
			if !s.IsField {
				s.Index = x.C.Fresh(hint+"_ix", SIdx)
			}
			np.Path = append(np.Path, s)
		}
		return np
	case TupleV:
		out := make(TupleV, len(v))
		for i := range v {
			out[i] = x.havocLike(st, hint, v[i], nil)
		}
		return out
	}
	return v
}

// loopModifiedRegions scans the loop body; returns (regions, all) where all means "havoc everything".
func (x *Exec) loopModifiedRegions(fr *Frame, L *Loop) (map[string]Sort, bool) {
	regs := map[string]Sort{}
	all := false
	seen := map[*ssa.Function]bool{}
	var scanFn func(fn *ssa.Function, depth int)
	var scanInstr func(ins ssa.Instruction, depth int)
	addElem := func(t types.Type) {
		r, s := x.regionForElem(t)
		regs[r] = s
	}
	addSliceElem := func(t types.Type) {
		if sl, ok := t.Underlying().(*types.Slice); ok {
			r, s := x.elemRegion(sl.Elem())
			regs[r] = s
		}
	}
	scanInstr = func(ins ssa.Instruction, depth int) {
		switch ins := ins.(type) {
		case *ssa.Store:
			addElem(ins.Addr.Type().Underlying().(*types.Pointer).Elem())
			// stores through interior pointers modify the root region: approximate by walking FieldAddr/IndexAddr chains
			root := ins.Addr
			for {
				switch r := root.(type) {
				case *ssa.FieldAddr:
					root = r.X
					addElem(root.Type().Underlying().(*types.Pointer).Elem())
					continue
				case *ssa.IndexAddr:
					root = r.X
					if pt, ok := root.Type().Underlying().(*types.Pointer); ok {
						addElem(pt.Elem())
					} else {
						addSliceElem(root.Type())
					}
					continue
				}
				break
			}
		case *ssa.MapUpdate:
			if mr, err := x.mapRegions(ins.Map.Type()); err == nil {
				regs[mr.D], regs[mr.V], regs[mr.L] = mr.DS, mr.VS, mr.LS
			} else {
				all = true
			}
		case *ssa.Alloc, *ssa.MakeSlice, *ssa.MakeMap, *ssa.MakeInterface, *ssa.SliceToArrayPointer, *ssa.Slice, *ssa.Convert:
			// allocation writes the fresh object only; covered by brk havoc + region havoc of its type
			if v, ok := ins.(ssa.Value); ok {
				switch t := v.Type().Underlying().(type) {
				case *types.Pointer:
					addElem(t.Elem())
				case *types.Slice:
					addSliceElem(v.Type())
				case *types.Map:
					if mr, err := x.mapRegions(v.Type()); err == nil {
						regs[mr.D], regs[mr.V], regs[mr.L] = mr.DS, mr.VS, mr.LS
					}
				case *types.Interface:
					all = true // boxing may allocate in any H region
				}
			}
		case ssa.CallInstruction:
			call := ins.Common()
			if x.isNoEffectCall(call) {
				return
			}
			if b, ok := call.Value.(*ssa.Builtin); ok {
				switch b.Name() {
				case "append", "copy":
					addSliceElem(call.Args[0].Type())
				case "delete":
					if mr, err := x.mapRegions(call.Args[0].Type()); err == nil {
						regs[mr.D], regs[mr.L] = mr.DS, mr.LS
					}
				}
				return
			}
			if call.IsInvoke() {
				all = true
				return
			}
			var fn *ssa.Function
			switch v := call.Value.(type) {
			case *ssa.Function:
				fn = v
			case *ssa.MakeClosure:
				fn = v.Fn.(*ssa.Function)
			}
			if fn == nil {
				all = true
				return
			}
			name := fn.String()
			if x.isPureExternal(name) || strings.HasPrefix(name, "math/bits.") || strings.HasPrefix(name, "bytes.Equal") || strings.HasPrefix(name, "bytes.Compare") {
				return
			}
			if strings.HasPrefix(name, "(encoding/binary.") {
				if strings.Contains(name, "Put") {
					r, s := x.elemRegion(types.Typ[types.Uint8])
					regs[r] = s
				}
				return
			}
			if fc := x.DB.For(fn); fc != nil && fc.HasSpec() && fc.Opts["countcalls"] != "" {
				regs[dynCallsRegion] = SArr(SRef, SIdx)
			}
			if fc := x.DB.For(fn); fc != nil && fc.HasSpec() && !fc.AssignsAll && len(fc.Assigns) == 0 {
				// pure by contract, may allocate results
				res := fn.Signature.Results()
				for i := 0; i < res.Len(); i++ {
					switch t := res.At(i).Type().Underlying().(type) {
					case *types.Slice:
						addSliceElem(res.At(i).Type())
					case *types.Pointer:
						addElem(t.Elem())
					}
				}
				return
			}
			if fc := x.DB.For(fn); fc != nil && fc.AssignsAll {
				all = true
				return
			}
			if !strings.HasPrefix(pkgPathOf(fn), modPath) && !stdInline[name] {
				// library code that is neither modelled as pure above nor inlined: assume it may change anything
				all = true
				return
			}
			if fc := x.DB.For(fn); fc != nil && fc.HasSpec() && !fc.AssignsAll && len(fc.Assigns) > 0 {
				// contract with an explicit frame: `*param` clauses modify objects of the parameter's pointee type
				// (which may live on its own or inside a slice backing array)
				okAll := true
				for _, a := range fc.Assigns {
					st, isStar := a.Expr.(*ast.StarExpr)
					id, isId := (ast.Expr)(nil), false
					if isStar {
						id, isId = st.X.(*ast.Ident)
					}
					found := false
					if strings.HasSuffix(strings.TrimSpace(a.Text), "[*]") {
						// s[*]: elements of the backing array of slice s
						if t := staticTypeOf(fn, a.Expr); t != nil {
							if sl, ok := t.Underlying().(*types.Slice); ok {
								addSliceElem(sl)
								found = true
							}
						}
					} else if c := staticContainer(fn, a.Expr); c != nil && !(isStar && isId) {
						// p.f.g / *p.f: the object that holds the assigned field
						addElem(c)
						r, s := x.elemRegion(c)
						regs[r] = s
						found = true
					}
					if !found && isStar && isId {
						for _, prm := range fn.Params {
							if prm.Name() == id.(*ast.Ident).Name {
								if pt, ok := prm.Type().Underlying().(*types.Pointer); ok {
									addElem(pt.Elem())
									r, s := x.elemRegion(pt.Elem())
									regs[r] = s
									found = true
								}
							}
						}
					}
					if !found {
						okAll = false
					}
				}
				if okAll {
					return
				}
				all = true
				return
			}
			if len(fn.Blocks) == 0 || depth > 6 {
				all = true
				return
			}
			scanFn(fn, depth+1)
		}
	}
	scanFn = func(fn *ssa.Function, depth int) {
		if seen[fn] {
			return
		}
		seen[fn] = true
		for _, b := range fn.Blocks {
			for _, ins := range b.Instrs {
				scanInstr(ins, depth)
			}
		}
	}
	for b := range L.Blocks {
		for _, ins := range b.Instrs {
			scanInstr(ins, 0)
		}
	}
	return regs, all
}

// untouchedAllocs: Alloc instructions outside loop L whose storage the loop body can only read. An allocation counts
// as touched as soon as any value derived from it (field/element addresses, slices of it, type changes) is used inside
// the loop by anything other than a load, a further derivation, len/cap, or a call known not to write through its
// arguments (bytes.Equal, bytes.Compare).
func untouchedAllocs(fr *Frame, L *Loop) []*ssa.Alloc {
	var out []*ssa.Alloc
	for _, b := range fr.Fn.Blocks {
		if L.Blocks[b] {
			continue
		}
		for _, ins := range b.Instrs {
			a, ok := ins.(*ssa.Alloc)
			if !ok {
				continue
			}
			derived := map[ssa.Value]bool{a: true}
			work := []ssa.Value{a}
			touched := false
			for len(work) > 0 && !touched {
				v := work[len(work)-1]
				work = work[:len(work)-1]
				refs := v.Referrers()
				if refs == nil {
					touched = true
					break
				}
				for _, r := range *refs {
					inLoop := L.Blocks[r.Block()]
					switch r := r.(type) {
					case *ssa.FieldAddr, *ssa.IndexAddr, *ssa.Slice, *ssa.ChangeType:
						rv := r.(ssa.Value)
						if !derived[rv] {
							derived[rv] = true
							work = append(work, rv)
						}
					case *ssa.UnOp:
						// load
					case *ssa.DebugRef:
					case *ssa.Store:
						if r.Val == v {
							touched = true // the address itself is stored somewhere: it escapes
						} else if inLoop {
							touched = true
						}
					case ssa.CallInstruction:
						// (a call outside the loop counts too: the callee may keep the address and write through it later)
						c := r.Common()
						if bi, ok := c.Value.(*ssa.Builtin); ok && (bi.Name() == "len" || bi.Name() == "cap") {
							continue
						}
						if f, ok := c.Value.(*ssa.Function); ok && (f.String() == "bytes.Equal" || f.String() == "bytes.Compare") {
							continue
						}
						touched = true
					default:
						if inLoop {
							touched = true
						} else if _, isPhi := r.(*ssa.Phi); isPhi {
							touched = true
						} else if _, isMI := r.(*ssa.MakeInterface); isMI {
							touched = true // ... unless the address escaped into an interface
						}
					}
					if touched {
						break
					}
				}
			}
			if !touched {
				out = append(out, a)
			}
		}
	}
	return out
}

// staticTypeOf: Go type of a contract location expression built from parameters, field selections and derefs.
func staticTypeOf(fn *ssa.Function, e ast.Expr) types.Type {
	switch e := e.(type) {
	case *ast.ParenExpr:
		return staticTypeOf(fn, e.X)
	case *ast.Ident:
		for _, prm := range fn.Params {
			if prm.Name() == e.Name {
				return prm.Type()
			}
		}
	case *ast.StarExpr:
		if t := staticTypeOf(fn, e.X); t != nil {
			if pt, ok := t.Underlying().(*types.Pointer); ok {
				return pt.Elem()
			}
		}
	case *ast.SelectorExpr:
		t := staticTypeOf(fn, e.X)
		if t == nil {
			return nil
		}
		if pt, ok := t.Underlying().(*types.Pointer); ok {
			t = pt.Elem()
		}
		if st, ok := t.Underlying().(*types.Struct); ok {
			for i := 0; i < st.NumFields(); i++ {
				if st.Field(i).Name() == e.Sel.Name {
					return st.Field(i).Type()
				}
			}
		}
	}
	return nil
}

// staticContainer: type of the heap object that holds the location e (`*p` -> pointee of p; `p.f` -> pointee of p;
// `p.f.g` with f a pointer -> pointee of f; with f a nested struct value -> the object holding p.f).
func staticContainer(fn *ssa.Function, e ast.Expr) types.Type {
	switch e := e.(type) {
	case *ast.ParenExpr:
		return staticContainer(fn, e.X)
	case *ast.StarExpr:
		if t := staticTypeOf(fn, e.X); t != nil {
			if pt, ok := t.Underlying().(*types.Pointer); ok {
				return pt.Elem()
			}
		}
	case *ast.SelectorExpr:
		t := staticTypeOf(fn, e.X)
		if t == nil {
			return nil
		}
		if pt, ok := t.Underlying().(*types.Pointer); ok {
			return pt.Elem()
		}
		return staticContainer(fn, e.X)
	}
	return nil
}

// execLoopInvariant: classic invariant cut.
func (x *Exec) execLoopInvariant(fr *Frame, L *Loop, in []Edge, lc *LoopContract) ([]Edge, error) {
	if lc.Unroll > 0 && len(lc.Invariants) == 0 {
		save := x.MaxUnroll
		x.MaxUnroll = lc.Unroll
		// temporarily hide the contract to use the unrolling path
		var allExits []Edge
		edges := in
		for k := 0; len(edges) > 0; k++ {
			if k > 0 {
				var pcs []Term
				for _, e := range edges {
					pcs = append(pcs, e.St.PC)
				}
				if !x.feasible(Or(pcs...)) {
					break
				}
			}
			if k > x.MaxUnroll {
				x.MaxUnroll = save
				return nil, unsupported("loop %s in %s not finished after %d unrollings", lc.Key, fr.Fn.Name(), lc.Unroll)
			}
			exits, backs, err := x.execRegion(fr, L, L.Header, edges)
			if err != nil {
				x.MaxUnroll = save
				return nil, err
			}
			allExits = append(allExits, exits...)
			edges = backs
		}
		x.MaxUnroll = save
		return allExits, nil
	}
	fnName := x.TopName
	label := fr.Prefix + fr.Fn.Name() + "#loop " + lc.Key
	// 1. entry
	var sts []*State
	for _, e := range in {
		sts = append(sts, e.St)
	}
	st0 := x.mergeStates(sts)
	phis, entryVals, err := x.phiValues(fr, L.Header, in)
	if err != nil {
		return nil, err
	}
	for i, phi := range phis {
		fr.Env[phi] = entryVals[i]
	}
	mkEnv := func(st *State) *EvalEnv {
		env := x.newEnv(fr.Fn, fr, nil, fr.Args, st, fr.Pre)
		if fr.Depth == 0 {
			// ghost variables and entry-state lets of the function under verification
			for k, v := range x.topGhosts {
				env.Vars[k] = v
			}
		}
		for _, phi := range phis {
			if phi.Comment != "" {
				env.Vars[phi.Comment] = fr.Env[phi]
				env.Vars[strings.ReplaceAll(phi.Comment, ".", "_")] = fr.Env[phi] // e.g. rangeint.iter -> rangeint_iter
			}
		}
		return env
	}
	env0 := mkEnv(st0)
	for _, inv := range lc.Invariants {
		t, err := env0.Bool(inv.Expr)
		if err != nil {
			if inv.Label == "default" && fr.Depth > 0 {
				continue // the default invariant of the top function does not type-check in this helper: no invariant
			}
			return nil, fmt.Errorf("%s: invariant %s: %v", label, inv.Label, err)
		}
		x.C.AddObligation(label+"#inv-init:"+inv.Label, "inv-init", fnName, x.absPC(st0.PC), t, inv.Text)
	}
	// 2. havoc
	stH := st0.Clone()
	regs, all := x.loopModifiedRegions(fr, L)
	if all {
		x.havocHeap(stH, "loop "+lc.Key)
	} else {
		type kept struct {
			p PtrV
			t Term
		}
		var keep []kept
		for _, g := range x.stableGlobals() {
			p := x.globalPtr(g)
			if _, touched := regs[p.Region]; !touched {
				continue
			}
			if v, err := x.Load(stH, p); err == nil {
				if t, err := x.toTerm(v); err == nil {
					keep = append(keep, kept{p, t})
				}
			}
		}
		for r, srt := range regs {
			x.regionSort[r] = srt
			stH.Heap[r] = x.C.Fresh("lh_"+r, srt)
			x.oldWrites++
			if x.dirty == nil {
				x.dirty = map[string]bool{}
			}
			x.dirty[r] = true
		}
		for _, k := range keep {
			if v, err := x.Load(stH, k.p); err == nil {
				if t, err := x.toTerm(v); err == nil {
					x.C.Assume(Eq(t, k.t), "stable package variable keeps its value across loop iterations")
				}
			}
		}
		// address-taken locals allocated before the loop that the loop body only reads keep their content
		for _, a := range untouchedAllocs(fr, L) {
			pv, ok := fr.Env[a].(PtrV)
			if !ok || len(pv.Path) != 0 {
				continue
			}
			srt, touched := regs[pv.Region]
			if !touched {
				continue
			}
			before := x.heapGet(st0, pv.Region, srt)
			after := x.heapGet(stH, pv.Region, srt)
			x.C.Assume(Eq(Select(after, pv.Base), Select(before, pv.Base)), "local "+a.Comment+" is not written in the loop")
		}
		nb := x.C.Fresh("brk", SRef)
		x.C.Assume(bvCmp("bvuge", nb, stH.Brk), "allocator monotone across loop iterations")
		x.C.NoteRefGE(nb.S, stH.Brk.S)
		stH.Brk = nb
	}
	for i, phi := range phis {
		fr.Env[phi] = x.havocLike(stH, "lv_"+phi.Comment, entryVals[i], phi.Type())
	}
	envH := mkEnv(stH)
	var variant0 Term
	for _, inv := range lc.Invariants {
		t, err := envH.Bool(inv.Expr)
		if err != nil {
			if inv.Label == "default" && fr.Depth > 0 {
				continue
			}
			return nil, fmt.Errorf("%s: invariant %s: %v", label, inv.Label, err)
		}
		x.C.Assume(Implies(x.absPC(stH.PC), t), "loop invariant "+inv.Label+" (induction hypothesis)")
	}
	if lc.Decreases != nil {
		v, err := envH.intArg(lc.Decreases.Expr, 64)
		if err != nil {
			return nil, fmt.Errorf("%s: decreases: %v", label, err)
		}
		variant0 = x.C.Name("variant", v)
	}
	bound := map[*ssa.Phi]Val{}
	for _, phi := range phis {
		bound[phi] = fr.Env[phi]
	}
	// 3. body
	x.boundPhis = bound
	exits, backs, err := x.execRegion(fr, L, L.Header, []Edge{{From: nil, To: L.Header, St: stH}})
	x.boundPhis = nil
	if err != nil {
		return nil, err
	}
	// 4. preservation
	if len(backs) > 0 {
		var bsts []*State
		for _, e := range backs {
			bsts = append(bsts, e.St)
		}
		stB := x.mergeStates(bsts)
		_, backVals, err := x.phiValues(fr, L.Header, backs)
		if err != nil {
			return nil, err
		}
		saved := map[*ssa.Phi]Val{}
		for i, phi := range phis {
			saved[phi] = fr.Env[phi]
			fr.Env[phi] = backVals[i]
		}
		envB := mkEnv(stB)
		for _, inv := range lc.Invariants {
			t, err := envB.Bool(inv.Expr)
			if err != nil {
				if inv.Label == "default" && fr.Depth > 0 {
					continue
				}
				return nil, fmt.Errorf("%s: invariant %s: %v", label, inv.Label, err)
			}
			x.C.AddObligation(label+"#inv-keep:"+inv.Label, "inv-keep", fnName, x.absPC(stB.PC), t, inv.Text)
		}
		if lc.Decreases != nil {
			v, err := envB.intArg(lc.Decreases.Expr, 64)
			if err != nil {
				return nil, fmt.Errorf("%s: decreases: %v", label, err)
			}
			prop := And(bvCmp("bvsge", variant0, BVInt(0, 64)), bvCmp("bvslt", v, variant0))
			x.C.AddObligation(label+"#dec", "dec", fnName, x.absPC(stB.PC), prop, lc.Decreases.Text)
		}
		for _, phi := range phis {
			fr.Env[phi] = saved[phi]
		}
	}
	return exits, nil
}
