package main

// `govc replay <file>`: re-run a replay file written by a check. Files that carry an executable replay (a generated
// in-package Go test) are run again against /repo's current working tree; files that only carry the failed obligation
// and the solver's output (no failing input found) are printed.

import (
	"encoding/json"
	"fmt"
	"os"
	"os/exec"
	"path/filepath"
	"strings"
)

func cmdReplay(args []string) int {
	if len(args) != 1 {
		fmt.Fprintln(os.Stderr, "usage: govc replay <replay file>")
		return 2
	}
	b, err := os.ReadFile(args[0])
	if err != nil {
		fmt.Fprintln(os.Stderr, err)
		return 2
	}
	txt := string(b)
	const m1 = "--- replay test (package "
	i := strings.Index(txt, m1)
	j := strings.Index(txt, "--- go test output ---")
	if i < 0 || j < i {
		fmt.Print(txt)
		fmt.Println("\n(no executable replay in this file: the verifier produced no failing input, or it could not be rebuilt as Go values)")
		return 1
	}
	hdr := txt[i+len(m1):]
	pkgPath := hdr[:strings.Index(hdr, ",")]
	src := hdr[strings.Index(hdr, "\n")+1 : j-i-len(m1)]
	pkgDir := filepath.Join(repoDir(), strings.TrimPrefix(pkgPath, modPath+"/"))
	tmp, err := os.MkdirTemp("", "govc-replay")
	if err != nil {
		fmt.Fprintln(os.Stderr, err)
		return 2
	}
	defer os.RemoveAll(tmp)
	testFile := filepath.Join(tmp, "zz_govc_replay_test.go")
	os.WriteFile(testFile, []byte(src), 0o644)
	pkgName := "main"
	for _, l := range strings.Split(src, "\n") {
		if strings.HasPrefix(l, "package ") {
			pkgName = strings.TrimSpace(strings.TrimPrefix(l, "package "))
			break
		}
	}
	repl := map[string]string{filepath.Join(pkgDir, "zz_govc_replay_test.go"): testFile}
	entries, _ := os.ReadDir(pkgDir)
	empty := filepath.Join(tmp, "empty_test.go")
	os.WriteFile(empty, []byte("package "+pkgName+"\n"), 0o644)
	for _, e := range entries {
		if strings.HasSuffix(e.Name(), "_test.go") {
			repl[filepath.Join(pkgDir, e.Name())] = empty
		}
	}
	repl[filepath.Join(repoDir(), "pkg/Rust-VRF/vrf-func-ffi/src/vrf.go")] = filepath.Join(verifDir(), "stubs/vrf_build/vrf.go")
	repl[filepath.Join(repoDir(), "pkg/erasure_coding/erasure_coding.go")] = filepath.Join(verifDir(), "stubs/erasure_build/erasure_coding.go")
	ovb, _ := json.Marshal(map[string]interface{}{"Replace": repl})
	ov := filepath.Join(tmp, "ov.json")
	os.WriteFile(ov, ovb, 0o644)
	cmd := exec.Command("go", "test", "-overlay", ov, "-vet=off", "-count=1", "-timeout", "60s", "-run", "^TestGovcReplay$", "-v", ".")
	cmd.Dir = pkgDir
	cmd.Env = append(os.Environ(), "CGO_ENABLED=0", "GOFLAGS=-mod=mod", "GOPROXY=off", "GOSUMDB=off", "GOTOOLCHAIN=local")
	out, _ := cmd.CombinedOutput()
	fmt.Print(string(out))
	if strings.Contains(string(out), "REPLAY-PANIC") || strings.Contains(string(out), "REPLAY-MISMATCH") || strings.Contains(string(out), "REPLAY-COMPARED mismatches=0") {
		return 1 // the replay reproduces what the file records
	}
	return 0
}
