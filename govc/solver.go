package main

import (
	"runtime"
	"bufio"
	"bytes"
	"context"
	"fmt"
	"io"
	"os"
	"os/exec"
	"path/filepath"
	"strings"
	"sync"
	"time"
)

type SolverSpec struct {
	Name string
	Cmd  []string // command; the script path is appended
}

func solverPortfolio() []SolverSpec {
	return []SolverSpec{
		{Name: "z3-new-5.1.0", Cmd: []string{"z3-new"}},
		{Name: "z3-4.8.12", Cmd: []string{"/usr/bin/z3"}},
		{Name: "cvc5-1.0", Cmd: []string{"cvc5", "--incremental"}},
		// the same z3 with its newer SAT/EUF core: decides some array-heavy queries in a fraction of the time
		{Name: "z3-new-5.1.0-sat.euf", Cmd: []string{"z3-new", "tactic.default_tactic=smt", "sat.euf=true"}},
	}
}

type SolveResult struct {
	Status  string // unsat | sat | unknown | timeout | error
	Solver  string
	Seconds float64
	Output  string
	All     map[string]string // per solver status
}

// runSolver runs one solver on a script file with a timeout.
func runSolver(ctx context.Context, s SolverSpec, path string, timeout time.Duration) (string, string, float64) {
	cctx, cancel := context.WithTimeout(ctx, timeout)
	defer cancel()
	args := append(append([]string{}, s.Cmd[1:]...), path)
	cmd := exec.CommandContext(cctx, s.Cmd[0], args...)
	var out bytes.Buffer
	cmd.Stdout = &out
	cmd.Stderr = &out
	t0 := time.Now()
	err := cmd.Run()
	el := time.Since(t0).Seconds()
	o := out.String()
	first := strings.TrimSpace(strings.SplitN(o, "\n", 2)[0])
	switch first {
	case "unsat", "sat", "unknown":
		return first, o, el
	}
	if cctx.Err() != nil {
		return "timeout", o, el
	}
	if err != nil || first != "" {
		return "error", o, el
	}
	return "error", o, el
}

// Race runs the portfolio concurrently; the first definite answer (sat/unsat) wins.
func Race(path string, timeout time.Duration, solvers []SolverSpec) SolveResult {
	ctx, cancel := context.WithCancel(context.Background())
	defer cancel()
	type r struct {
		name, status, out string
		sec              float64
	}
	ch := make(chan r, len(solvers))
	for _, s := range solvers {
		go func(s SolverSpec) {
			st, out, sec := runSolver(ctx, s, path, timeout)
			ch <- r{s.Name, st, out, sec}
		}(s)
	}
	res := SolveResult{Status: "unknown", All: map[string]string{}}
	for i := 0; i < len(solvers); i++ {
		x := <-ch
		res.All[x.name] = x.status
		if x.status == "sat" || x.status == "unsat" {
			res.Status, res.Solver, res.Seconds, res.Output = x.status, x.name, x.sec, x.out
			cancel()
			return res
		}
		if res.Output == "" || x.status == "unknown" {
			res.Output = x.out
			res.Solver = x.name
			res.Seconds = x.sec
			if x.status == "timeout" && res.Status != "unknown" {
				res.Status = "timeout"
			}
			if x.status == "unknown" {
				res.Status = "unknown"
			}
		}
	}
	allTimeout := true
	allErr := true
	for _, s := range res.All {
		if s != "timeout" {
			allTimeout = false
		}
		if s != "error" {
			allErr = false
		}
	}
	if allTimeout {
		res.Status = "timeout"
	}
	if allErr {
		res.Status = "error"
	}
	return res
}

// ---------- incremental solver used for feasibility checks during unrolling ----------

type IncSolver struct {
	c       *Ctx
	cmd     *exec.Cmd
	in      io.WriteCloser
	out     *bufio.Reader
	nSort   int
	nDecl   int
	nAssum  int
	dead    bool
	mu      sync.Mutex
	started bool
}

func NewIncSolver(c *Ctx) *IncSolver { return &IncSolver{c: c} }

func (s *IncSolver) start() {
	s.started = true
	s.cmd = exec.Command("z3-new", "-in")
	in, err := s.cmd.StdinPipe()
	if err != nil {
		s.dead = true
		return
	}
	out, err := s.cmd.StdoutPipe()
	if err != nil {
		s.dead = true
		return
	}
	s.cmd.Stderr = nil
	if err := s.cmd.Start(); err != nil {
		s.dead = true
		return
	}
	s.in = in
	s.out = bufio.NewReader(out)
	fmt.Fprintln(s.in, "(declare-const f64_zero F64_placeholder)")
}

func (s *IncSolver) CheckSat(pc Term, timeoutMs int) string {
	s.mu.Lock()
	defer s.mu.Unlock()
	if !s.started {
		s.started = true
		s.cmd = exec.Command("z3-new", "-in")
		in, err := s.cmd.StdinPipe()
		if err != nil {
			s.dead = true
			return "unknown"
		}
		out, err := s.cmd.StdoutPipe()
		if err != nil {
			s.dead = true
			return "unknown"
		}
		if err := s.cmd.Start(); err != nil {
			s.dead = true
			return "unknown"
		}
		s.in = in
		s.out = bufio.NewReader(out)
	}
	if s.dead {
		return "unknown"
	}
	var sb strings.Builder
	if s.nSort == 0 {
		sb.WriteString("(set-option :print-success false)\n")
	}
	first := s.nSort == 0
	for ; s.nSort < len(s.c.sortDecls); s.nSort++ {
		sb.WriteString(s.c.sortDecls[s.nSort])
		sb.WriteByte('\n')
	}
	if first {
		sb.WriteString("(declare-const f64_zero F64)\n")
		if s.c.specPrelude != "" {
			sb.WriteString(s.c.specPrelude)
			sb.WriteByte('\n')
		}
	}
	for ; s.nDecl < len(s.c.decls); s.nDecl++ {
		for s.nAssum < len(s.c.assums) && s.c.assums[s.nAssum].Prefix <= s.nDecl {
			fmt.Fprintf(&sb, "(assert %s)\n", s.c.assums[s.nAssum].T.S)
			s.nAssum++
		}
		sb.WriteString(s.c.decls[s.nDecl])
		sb.WriteByte('\n')
	}
	for ; s.nAssum < len(s.c.assums); s.nAssum++ {
		fmt.Fprintf(&sb, "(assert %s)\n", s.c.assums[s.nAssum].T.S)
	}
	fmt.Fprintf(&sb, "(push)\n(set-option :timeout %d)\n(assert %s)\n(check-sat)\n(pop)\n", timeoutMs, pc.S)
	if _, err := io.WriteString(s.in, sb.String()); err != nil {
		s.dead = true
		return "unknown"
	}
	for {
		line, err := s.out.ReadString('\n')
		if err != nil {
			s.dead = true
			return "unknown"
		}
		line = strings.TrimSpace(line)
		switch line {
		case "sat", "unsat", "unknown":
			return line
		}
		if strings.HasPrefix(line, "(error") {
			fmt.Fprintf(os.Stderr, "govc: incremental solver error: %s\n", line)
			// keep reading until an answer shows up
		}
	}
}

func (s *IncSolver) Close() {
	if s.started && s.cmd != nil && s.cmd.Process != nil {
		if s.in != nil {
			io.WriteString(s.in, "(exit)\n")
			s.in.Close()
		}
		done := make(chan struct{})
		go func() { s.cmd.Wait(); close(done) }()
		select {
		case <-done:
		case <-time.After(2 * time.Second):
			s.cmd.Process.Kill()
		}
	}
}

// ---------- discharge ----------

type DischargeOpts struct {
	Timeout  time.Duration
	Workers  int
	WorkDir  string
	Cross    bool // thorough: require a second solver to agree on unsat
	KeepSMT  bool
}

type job struct {
	o    *Obligation
	idx  int
	inst Instance
	c    *Ctx
	path string
}

type InstResult struct {
	Status string
	Solver string
	Sec    float64
	Output string
	Path   string
}

// Discharge solves all obligations of the given function results.
func Discharge(results []*FnResult, opts DischargeOpts) (stats map[string]int, solverTime float64, byBackend map[string]int) {
	stats = map[string]int{}
	byBackend = map[string]int{}
	os.MkdirAll(opts.WorkDir, 0o755)
	// a machine that is already busy (other checks running beside this one) gets fewer workers and a longer budget,
	// so that load does not turn proofs into time-outs
	if f := loadFactor(); f > 1 {
		opts.Timeout = time.Duration(float64(opts.Timeout) * f)
		if w := int(float64(opts.Workers) / f); w >= 4 {
			opts.Workers = w
		} else {
			opts.Workers = 4
		}
		fmt.Fprintf(os.Stderr, "govc: machine busy (load factor %.1f): %d workers, solver budget %s\n", f, opts.Workers, opts.Timeout)
	}
	var jobs []job
	for _, fr := range results {
		if fr.Ctx == nil {
			continue
		}
		for _, o := range fr.Obls {
			if len(o.Instances) == 0 {
				o.Status = "discharged"
				o.Solver = "trivial (constant folding)"
				continue
			}
			for i, inst := range o.Instances {
				jobs = append(jobs, job{o: o, idx: i, inst: inst, c: fr.Ctx})
			}
		}
	}
	resCh := make([]InstResult, len(jobs))
	var wg sync.WaitGroup
	sem := make(chan struct{}, opts.Workers)
	var mu sync.Mutex
	for ji := range jobs {
		wg.Add(1)
		sem <- struct{}{}
		go func(ji int) {
			defer wg.Done()
			defer func() { <-sem }()
			j := jobs[ji]
			name := fmt.Sprintf("%s__%d.smt2", sanitizeFile(j.o.Name), j.idx)
			path := filepath.Join(opts.WorkDir, name)
			extra := ""
			script := j.c.Script(j.inst, true, extra)
			os.WriteFile(path, []byte(script), 0o644)
			solvers := solverPortfolio()
			if j.c.usesLambda {
				solvers = append(append([]SolverSpec{}, solvers[:2]...), solvers[3:]...) // cvc5 rejects lambda array terms
			}
			// stage 1: the usually-fastest solver alone (keeps the machine from being oversubscribed);
			// stage 2: the full portfolio raced with the full timeout
			full := opts.Timeout
			if j.c.timeoutFactor > 1 {
				full = time.Duration(float64(full) * j.c.timeoutFactor)
			}
			stage1 := full / 3
			if stage1 < 4*time.Second {
				stage1 = 4 * time.Second
			}
			// (one process per worker in the first two stages: the machine is not oversubscribed)
			r := Race(path, stage1, solvers[:1])
			if r.Status != "sat" && r.Status != "unsat" {
				r = Race(path, stage1, solvers[len(solvers)-1:])
			}
			if r.Status != "sat" && r.Status != "unsat" {
				r = Race(path, full, solvers)
			}
			if j.o.MustBeSat && r.Status != "sat" && r.Status != "unsat" && j.c.sizeHints+j.c.nilHints != "" {
				// a cover under quantified invariants: look for a small witness instead (a model of the
				// strengthened query is a model of the cover)
				hpath := strings.TrimSuffix(path, ".smt2") + "__small.smt2"
				os.WriteFile(hpath, []byte(j.c.Script(j.inst, true, j.c.sizeHints+j.c.nilHints)), 0o644)
				if rh := Race(hpath, full, solvers); rh.Status == "sat" {
					r = rh
					path = hpath
				} else {
					os.WriteFile(hpath, []byte(j.c.Script(j.inst, true, j.c.sizeHints)), 0o644)
					if rh := Race(hpath, full, solvers); rh.Status == "sat" {
						r = rh
						path = hpath
					}
				}
			}
			if r.Status == "unsat" && opts.Cross {
				// second opinion from a different solver
				var others []SolverSpec
				for _, s := range solvers {
					if s.Name != r.Solver {
						others = append(others, s)
					}
				}
				r2 := Race(path, opts.Timeout, others)
				if r2.Status == "sat" {
					r.Status = "unknown"
					r.Output = "solvers disagree: " + r.Solver + " unsat, " + r2.Solver + " sat"
				} else if r2.Status == "unsat" {
					r.Solver += "+" + r2.Solver
				}
			}
			if r.Status == "sat" && !j.o.MustBeSat && j.c.sizeHints+j.c.nilHints != "" {
				// prefer a small model (replayable): same query plus size bounds on slice inputs
				hpath := strings.TrimSuffix(path, ".smt2") + "__small.smt2"
				os.WriteFile(hpath, []byte(j.c.Script(j.inst, true, j.c.sizeHints+j.c.nilHints)), 0o644)
				if rh := Race(hpath, opts.Timeout, solvers[:1]); rh.Status == "sat" {
					r.Output = rh.Output
					path = hpath
				} else {
					os.WriteFile(hpath, []byte(j.c.Script(j.inst, true, j.c.sizeHints)), 0o644)
					if rh := Race(hpath, opts.Timeout, solvers[:1]); rh.Status == "sat" {
						r.Output = rh.Output
						path = hpath
					}
				}
			}
			mu.Lock()
			solverTime += r.Seconds
			mu.Unlock()
			resCh[ji] = InstResult{Status: r.Status, Solver: r.Solver, Sec: r.Seconds, Output: r.Output, Path: path}
		}(ji)
	}
	wg.Wait()
	// rescue pass: instances that timed out while the machine was busy (other checks running beside
	// this one) get one more attempt, few at a time, with three times the timeout. A load-dependent
	// "undecided" would otherwise be reported as an alarm on code where the property holds.
	var late []int
	for ji := range jobs {
		if s := resCh[ji].Status; s != "sat" && s != "unsat" && !strings.HasPrefix(resCh[ji].Output, "solvers disagree") {
			late = append(late, ji)
		}
	}
	if n := len(late); n > 0 && n <= 64 && os.Getenv("GOVC_NORESCUE") == "" {
		rsem := make(chan struct{}, 3)
		for _, ji := range late {
			wg.Add(1)
			rsem <- struct{}{}
			go func(ji int) {
				defer wg.Done()
				defer func() { <-rsem }()
				j := jobs[ji]
				solvers := solverPortfolio()
				if j.c.usesLambda {
					solvers = append(append([]SolverSpec{}, solvers[:2]...), solvers[3:]...)
				}
				full := opts.Timeout
				if j.c.timeoutFactor > 1 {
					full = time.Duration(float64(full) * j.c.timeoutFactor)
				}
				r := Race(resCh[ji].Path, 3*full, solvers)
				mu.Lock()
				solverTime += r.Seconds
				mu.Unlock()
				if r.Status == "sat" || r.Status == "unsat" {
					fmt.Fprintf(os.Stderr, "govc: rescue pass decided %s (%s, %.1fs)\n", j.o.Name, r.Status, r.Seconds)
					resCh[ji] = InstResult{Status: r.Status, Solver: r.Solver + " (rescue pass)", Sec: resCh[ji].Sec + r.Seconds, Output: r.Output, Path: resCh[ji].Path}
				}
			}(ji)
		}
		wg.Wait()
	}
	// aggregate per obligation
	perObl := map[*Obligation][]InstResult{}
	for ji, j := range jobs {
		perObl[j.o] = append(perObl[j.o], resCh[ji])
	}
	for _, fr := range results {
		for _, o := range fr.Obls {
			rs, ok := perObl[o]
			if !ok {
				continue
			}
			o.Status = "discharged"
			for _, r := range rs {
				o.Seconds += r.Sec
				if o.MustBeSat {
					// cover: at least one instance must be satisfiable
					continue
				}
				if r.Status != "unsat" {
					if r.Status == "sat" {
						o.Status = "failed"
						o.Model = "sat\n" + fmtModel(fr.Ctx.queries, parseValues(r.Output, fr.Ctx.queries))
						o.ModelVals = parseValues(r.Output, fr.Ctx.queries)
						o.Solver = r.Solver
						o.Detail += " | smt: " + r.Path
					} else if o.Status != "failed" {
						o.Status = "undecided"
						o.Solver = r.Solver
						o.Model = r.Status + ": " + firstLines(r.Output, 5)
						o.Detail += " | smt: " + r.Path
					}
				} else if o.Solver == "" {
					o.Solver = r.Solver
				}
			}
			if o.MustBeSat {
				o.Status = "failed"
				for _, r := range rs {
					if r.Status == "sat" {
						o.Status = "discharged"
						o.Solver = r.Solver
					}
				}
				if o.Status == "failed" {
					allUnsat := true
					for _, r := range rs {
						if r.Status != "unsat" {
							allUnsat = false
						}
					}
					if !allUnsat {
						o.Status = "undecided"
					}
					o.Model = "cover is unsatisfiable: precondition or path is vacuous"
				}
			}
			stats[o.Status]++
			if o.Status == "discharged" {
				byBackend[strings.SplitN(o.Solver, "+", 2)[0]]++
			}
		}
	}
	for _, fr := range results {
		for _, o := range fr.Obls {
			if _, ok := perObl[o]; !ok {
				stats[o.Status]++
				byBackend[o.Solver]++
			}
		}
	}
	return
}

func firstLines(s string, n int) string {
	ls := strings.Split(s, "\n")
	if len(ls) > n {
		ls = ls[:n]
	}
	return strings.Join(ls, " / ")
}

func sanitizeFile(s string) string {
	s = sanitize(s)
	if len(s) > 120 {
		s = s[:120]
	}
	return s
}

// loadFactor is the 1-minute load average divided by the number of CPUs, clamped to [1, 4].
func loadFactor() float64 {
	b, err := os.ReadFile("/proc/loadavg")
	if err != nil {
		return 1
	}
	var l1 float64
	if _, err := fmt.Sscanf(string(b), "%f", &l1); err != nil {
		return 1
	}
	f := l1 / float64(runtime.NumCPU())
	if f < 1 {
		return 1
	}
	if f > 4 {
		return 4
	}
	return f
}
