package main

import (
	"go/token"
	"fmt"
	"go/types"
	"strings"

	"golang.org/x/tools/go/ssa"
)

// packages whose calls have no effect visible to contracts (logging, timing, metrics)
var noEffectPkgs = []string{
	modPath + "/logger",
	modPath + "/internal/utilities/timing",
	modPath + "/internal/telemetry",
	"log", "os.Stderr",
}

var noEffectFuncs = map[string]bool{
	"fmt.Printf": true, "fmt.Println": true, "fmt.Print": true, "fmt.Fprintf": true, "fmt.Fprintln": true,
	"log.Printf": true, "log.Println": true, "log.Print": true,
	"(*sync.Mutex).Lock": true, "(*sync.Mutex).Unlock": true, "(*sync.RWMutex).Lock": true, "(*sync.RWMutex).Unlock": true,
	"(*sync.RWMutex).RLock": true, "(*sync.RWMutex).RUnlock": true,
	"time.Now": true, "time.Since": true,
	modPath + "/internal/types.cLog": true,
}

func calleeName(call *ssa.CallCommon) string {
	if call.IsInvoke() {
		return "invoke " + call.Method.FullName()
	}
	switch v := call.Value.(type) {
	case *ssa.Function:
		return v.String()
	case *ssa.Builtin:
		return "builtin " + v.Name()
	case *ssa.MakeClosure:
		return v.Fn.(*ssa.Function).String()
	}
	return "dynamic"
}

func (x *Exec) isNoEffectName(name string) bool {
	if noEffectFuncs[name] {
		return true
	}
	for _, p := range noEffectPkgs {
		if x.Top != nil && pkgPathOf(x.Top) == p {
			continue // inside the package itself its functions are real code
		}
		if strings.HasPrefix(name, p+".") || strings.HasPrefix(name, "(*"+p+".") || strings.HasPrefix(name, "("+p+".") {
			return true
		}
	}
	return false
}

func (x *Exec) isNoEffectCall(call *ssa.CallCommon) bool {
	if call.IsInvoke() {
		return x.isNoEffectName(call.Method.FullName())
	}
	if f, ok := call.Value.(*ssa.Function); ok {
		return x.isNoEffectName(f.String())
	}
	if mc, ok := call.Value.(*ssa.MakeClosure); ok {
		return x.isNoEffectName(mc.Fn.(*ssa.Function).String())
	}
	return false
}

// doCall executes a call. `ins` may be nil (deferred call). fnvOverride/argOverride are used for deferred calls.
func (x *Exec) doCall(fr *Frame, st *State, call *ssa.CallCommon, ins *ssa.Call, fnvOverride Val, argOverride []Val) (Val, error) {
	var args []Val
	if argOverride != nil {
		args = argOverride
	} else {
		for _, a := range call.Args {
			v, err := x.valueOf(fr, a)
			if err != nil {
				return nil, err
			}
			args = append(args, v)
		}
	}
	sig := call.Signature()
	var site ssa.Instruction
	if ins != nil {
		site = ins
	}
	wrap := func(res []Val) Val {
		switch sig.Results().Len() {
		case 0:
			return nil
		case 1:
			return res[0]
		}
		return TupleV(res)
	}
	if call.IsInvoke() {
		name := call.Method.FullName()
		if x.isNoEffectName(name) {
			return wrap(x.havocResults(st, sig, "noeffect")), nil
		}
		// invoke on interface: resolve when the dynamic type is concrete
		recv, err := x.tv(fr, call.Value)
		if err != nil {
			return nil, err
		}
		if m := x.modelInvoke(fr, st, call, recv, args); m != nil {
			return wrap(m), nil
		}
		if fn, rv := x.resolveInvoke(st, call, recv.T); fn != nil {
			res, err := x.callResolved(fr, st, fn, append([]Val{rv}, args...), site)
			if err != nil {
				return nil, err
			}
			return wrap(res), nil
		}
		x.C.Note("unmodelled interface call " + name + " (results and reachable heap havocked)")
		x.havocHeapAtCall(st, "call "+name)
		return wrap(x.havocResults(st, sig, name)), nil
	}
	var fnv Val
	if fnvOverride != nil {
		fnv = fnvOverride
	} else {
		v, err := x.valueOf(fr, call.Value)
		if err != nil {
			return nil, err
		}
		fnv = v
	}
	switch f := fnv.(type) {
	case BuiltinV:
		r, err := x.builtin(fr, st, f.Name, call, args, site)
		if err != nil {
			return nil, err
		}
		return r, nil
	case FuncV:
		res, err := x.callResolved(fr, st, f.Fn, append(append([]Val{}, f.Bindings...), args...), site)
		if err != nil {
			return nil, err
		}
		return wrap(res), nil
	case TV:
		// function value as term: resolvable if constant id
		if c, ok := f.T.Const(); ok {
			if fn, ok := x.C.funcByID[int(c.Int64())].(*ssa.Function); ok {
				res, err := x.callResolved(fr, st, fn, args, site)
				if err != nil {
					return nil, err
				}
				return wrap(res), nil
			}
		}
		if site != nil {
			x.obligation(fr, site, "nil", st.PC, Not(Eq(f.T, BVInt(0, 32))), "call of nil function value")
		}
		if x.topContract != nil && x.topContract.Opts["purecalls"] != "" {
			// `opt purecalls`: function values received from the caller (hash functions) are assumed not to write memory
			x.C.trusted["function values called by "+x.topContract.Name+" do not modify memory (opt purecalls)"] = true
			if x.topContract.Opts["countcalls"] != "" {
				// ghost state: number of calls made through function values so far (contract term `dyncalls()`), kept in
				// a pseudo heap region so that joins merge it and loop cuts / unknown callees havoc it like any other state
				h := x.heapGet(st, dynCallsRegion, SArr(SRef, SIdx))
				x.heapSet(st, dynCallsRegion, Store(h, BVInt(0, 32), bvBin("bvadd", Select(h, BVInt(0, 32)), BVInt(1, 64))))
			}
			return wrap(x.havocResults(st, sig, "dyn")), nil
		}
		x.C.Note("call through a symbolic function value (results and heap havocked)")
		x.havocHeap(st, "dynamic call")
		return wrap(x.havocResults(st, sig, "dyn")), nil
	}
	return nil, unsupported("call of %T", fnv)
}

// dynCallsRegion: ghost counter of calls through function values (`opt countcalls`, contract term `dyncalls()`).
const dynCallsRegion = "G:dyncalls"

func (x *Exec) havocResults(st *State, sig *types.Signature, hint string) []Val {
	var out []Val
	for i := 0; i < sig.Results().Len(); i++ {
		t := sig.Results().At(i).Type()
		out = append(out, x.freshVal(st, hint, t))
	}
	return out
}

func (x *Exec) freshVal(st *State, hint string, t types.Type) Val {
	term := x.C.Fresh("r_"+hint, x.C.SortOf(t))
	x.refAssume(st, term, t)
	return x.fromTerm(term, t)
}

// havocHeapAtCall: havoc for an unknown callee — everything except the caller's private locals.
func (x *Exec) havocHeapAtCall(st *State, why string) {
	x.keepPrivate = true
	defer func() { x.keepPrivate = false }()
	x.havocHeap(st, why)
}

// privateAlloc reports whether the address of a local never leaves the function: it is only used to read and write
// the local (directly or through field/element addresses) and as an argument of callees whose contract declares an
// explicit assigns list (such a callee cannot store the pointer anywhere) and that do not return a pointer.
func (x *Exec) privateAlloc(a *ssa.Alloc) bool {
	if v, ok := x.privCache[a]; ok {
		return v
	}
	if x.privCache == nil {
		x.privCache = map[*ssa.Alloc]bool{}
	}
	var ok func(v ssa.Value, depth int) bool
	ok = func(v ssa.Value, depth int) bool {
		if depth > 6 || v.Referrers() == nil {
			return false
		}
		for _, r := range *v.Referrers() {
			switch r := r.(type) {
			case *ssa.DebugRef:
			case *ssa.UnOp:
				if r.Op != token.MUL {
					return false
				}
			case *ssa.Store:
				if r.Val == v {
					return false
				}
			case *ssa.FieldAddr:
				if !ok(r, depth+1) {
					return false
				}
			case *ssa.IndexAddr:
				if r.X != v || !ok(r, depth+1) {
					return false
				}
			case *ssa.Call:
				fn := r.Call.StaticCallee()
				if fn == nil || r.Call.IsInvoke() {
					return false
				}
				fc := x.DB.For(fn)
				if fc == nil || fc.AssignsAll || !fc.HasSpec() || fc.Trusted {
					return false
				}
				res := fn.Signature.Results()
				for i := 0; i < res.Len(); i++ {
					if pt, isPtr := res.At(i).Type().Underlying().(*types.Pointer); isPtr && types.Identical(pt.Elem(), a.Type().Underlying().(*types.Pointer).Elem()) {
						return false
					}
				}
			default:
				return false
			}
		}
		return true
	}
	res := ok(a, 0)
	x.privCache[a] = res
	return res
}

// havocHeap: the whole heap becomes unknown (new epoch); the allocator only grows.
func (x *Exec) havocHeap(st *State, why string) {
	// package variables declared `stable` / `readonly` in the contract files keep their value across unknown effects
	type kept struct {
		p PtrV
		t Term
	}
	var keep []kept
	for _, g := range x.stableGlobals() {
		p := x.globalPtr(g)
		if v, err := x.Load(st, p); err == nil {
			if t, err := x.toTerm(v); err == nil {
				keep = append(keep, kept{p, t})
			}
		}
	}
	defer func() {
		for _, k := range keep {
			if v, err := x.Load(st, k.p); err == nil {
				if t, err := x.toTerm(v); err == nil {
					x.C.Assume(Eq(t, k.t), "stable package variable keeps its value across "+why)
				}
			}
		}
	}()
	// locals whose address provably never left the function (see privateAlloc) are out of the callee's reach
	type keptLocal struct {
		p PtrV
		v Val
	}
	var locals []keptLocal
	if x.keepPrivate {
		for _, pl := range x.livePriv {
			if v, err := x.Load(st, pl); err == nil {
				locals = append(locals, keptLocal{pl, v})
			}
		}
	}
	defer func() {
		for _, k := range locals {
			x.Store(st, k.p, k.v)
		}
	}()
	st.Epoch = x.newEpoch(nil)
	st.Heap = map[string]Term{}
	nb := x.C.Fresh("brk", SRef)
	x.C.Assume(bvCmp("bvuge", nb, st.Brk), "allocator monotone across "+why)
	x.C.NoteRefGE(nb.S, st.Brk.S)
	st.Brk = nb
	x.oldWrites++
	x.dirtyAll = true
	x.havocked = true
}

func (x *Exec) resolveInvoke(st *State, call *ssa.CallCommon, recv Term) (*ssa.Function, Val) {
	// resolvable when the interface value is the result of a MakeInterface instruction executed earlier (possibly in
	// a caller): its dynamic type and the boxed value are then known
	org, ok := x.ifaceOrigin[recv.S]
	if !ok {
		return nil, nil
	}
	sel := x.P.SSA.MethodSets.MethodSet(org.Typ).Lookup(call.Method.Pkg(), call.Method.Name())
	if sel == nil {
		return nil, nil
	}
	fn := x.P.SSA.MethodValue(sel)
	if fn == nil || len(fn.Blocks) == 0 {
		return nil, nil
	}
	return fn, org.Val
}

// callResolved: contract > model > inline > external
func (x *Exec) callResolved(fr *Frame, st *State, fn *ssa.Function, args []Val, site ssa.Instruction) ([]Val, error) {
	name := fn.String()
	if x.isNoEffectName(name) {
		return x.havocResults(st, fn.Signature, "noeffect"), nil
	}
	if res, ok, err := x.model(fr, st, fn, args, site); ok || err != nil {
		return res, err
	}
	if name == "(*bytes.Reader).Read" && site != nil && x.topContract != nil && x.topContract.Opts["strictread"] != "" && len(args) == 2 {
		// `opt strictread`: the callers under this contract ignore the count returned by Read, so a read that can come
		// back short (fewer octets left than requested) would accept truncated input
		if rp, ok := args[0].(PtrV); ok {
			if rv, err := x.Load(st, rp); err == nil {
				if rt, err := x.toTerm(rv); err == nil {
					si := x.C.StructInfo(rp.Typ.Underlying().(*types.Pointer).Elem())
					var s, i Term
					for k, f := range si.Fields {
						if strings.HasSuffix(f, "-s") {
							s = App(si.FSorts[k], f, rt)
						}
						if strings.HasSuffix(f, "-i") {
							i = App(si.FSorts[k], f, rt)
						}
					}
					if s.S != "" && i.S != "" {
						want := SlLen(args[1].(TV).T)
						x.obligation(fr, site, "shortread", st.PC, bvCmp("bvsle", want, bvBin("bvsub", SlLen(s), i)), "Read may return fewer octets than requested and the count is not checked (truncated input accepted)")
					}
				}
			}
		}
	}
	if fc := x.DB.For(fn); fc != nil && fn == x.Top && fc.HasSpec() && site != nil {
		// direct recursion: the call is checked against the function's own contract (partial correctness); termination
		// needs a variant, given as `opt decreases=<measure>` — without one the recursion is reported
		if fc.Opts["decreases"] == "" {
			x.obligation(fr, site, "term", st.PC, TFalse, "recursive call with no decreases measure: termination is not established")
		} else {
			x.C.trusted["termination of the recursion in "+fc.Name+" (declared measure "+fc.Opts["decreases"]+" is not checked)"] = true
		}
		return x.applyContract(fr, st, fn, fc, args, site)
	}
	inlineHere := false
	if x.topContract != nil {
		for _, n := range strings.Fields(strings.ReplaceAll(x.topContract.Opts["inlinecalls"], ",", " ")) {
			if n == fn.Name() {
				inlineHere = true // `opt inlinecalls=f,g`: this function needs the bodies, not the contracts, of f and g
			}
		}
	}
	if fc := x.DB.For(fn); fc != nil && fn != x.Top && fc.HasSpec() && fc.Opts["inline"] == "" && !inlineHere {
		return x.applyContract(fr, st, fn, fc, args, site)
	}
	if len(fn.Blocks) == 0 || !strings.HasPrefix(pkgPathOf(fn), modPath) && !x.inlineStdlib(fn) {
		x.C.Note("external call " + FuncDisplayName(fn) + " (results and heap havocked)")
		if !x.isPureExternal(name) {
			x.havocHeapAtCall(st, "call "+name)
		}
		return x.havocResults(st, fn.Signature, fn.Name()), nil
	}
	prefix := fr.Prefix + fr.Fn.Name() + ">"
	return x.CallFunction(fn, args, st, prefix, fr.Depth+1)
}

func pkgPathOf(fn *ssa.Function) string {
	if fn.Pkg != nil {
		return fn.Pkg.Pkg.Path()
	}
	if fn.Origin() != nil && fn.Origin().Pkg != nil {
		return fn.Origin().Pkg.Pkg.Path()
	}
	if fn.Parent() != nil {
		return pkgPathOf(fn.Parent())
	}
	return ""
}

// Standard-library functions whose real bodies are executed symbolically (they are small and within the subset);
// everything else from the standard library is either modelled (models.go) or external.
var stdInline = map[string]bool{
	"(*bytes.Reader).ReadByte": true, "(*bytes.Reader).Read": true, "(*bytes.Reader).Len": true, "(*bytes.Reader).Size": true,
	"bytes.NewReader": true, "(*bytes.Reader).Reset": true, "(*bytes.Reader).UnreadByte": true,
	"bytes.NewBuffer": true, "(*bytes.Buffer).Len": true, "(*bytes.Buffer).Bytes": true, "(*bytes.Buffer).Next": true,
	"(*bytes.Buffer).Read": true, "(*bytes.Buffer).empty": true, "(*bytes.Buffer).Reset": true,
}

func (x *Exec) inlineStdlib(fn *ssa.Function) bool {
	return len(fn.Blocks) > 0 && (stdInline[fn.String()] || x.allowStdInline[fn.String()])
}

func (x *Exec) isPureExternal(name string) bool {
	for _, p := range []string{"fmt.", "errors.", "strconv.", "strings.", "math.", "encoding/hex.", "time.", "(*errors.", "unicode"} {
		if strings.HasPrefix(name, p) {
			return true
		}
	}
	return false
}

// ---------- builtins ----------

func (x *Exec) builtin(fr *Frame, st *State, name string, call *ssa.CallCommon, args []Val, site ssa.Instruction) (Val, error) {
	switch name {
	case "len", "cap":
		at := call.Args[0].Type()
		switch u := at.Underlying().(type) {
		case *types.Slice:
			s := args[0].(TV).T
			if name == "len" {
				return TV{T: SlLen(s), Typ: types.Typ[types.Int]}, nil
			}
			return TV{T: SlCap(s), Typ: types.Typ[types.Int]}, nil
		case *types.Array:
			return TV{T: BVInt(u.Len(), 64), Typ: types.Typ[types.Int]}, nil
		case *types.Pointer:
			return TV{T: BVInt(u.Elem().Underlying().(*types.Array).Len(), 64), Typ: types.Typ[types.Int]}, nil
		case *types.Basic:
			ln := App(SIdx, "str_len", args[0].(TV).T)
			x.C.Assume(bvCmp("bvule", ln, BVUint(1<<40, 64)), "string length bound")
			return TV{T: ln, Typ: types.Typ[types.Int]}, nil
		case *types.Map:
			ln, err := x.mapLen(st, at, args[0].(TV).T)
			if err != nil {
				return nil, err
			}
			return TV{T: x.C.Name("maplen", ln), Typ: types.Typ[types.Int]}, nil
		}
		return nil, unsupported("len of %s", at)
	case "append":
		return x.builtinAppend(fr, st, call, args)
	case "copy":
		return x.builtinCopy(fr, st, call, args)
	case "delete":
		m := args[0].(TV)
		k := args[1].(TV)
		return nil, x.mapDelete(st, call.Args[0].Type(), m.T, k.T)
	case "min", "max":
		t := call.Args[0].Type()
		_, signed, isInt := isInteger(t)
		if !isInt {
			return nil, unsupported("min/max on %s", t)
		}
		cur := args[0].(TV).T
		for _, a := range args[1:] {
			b := a.(TV).T
			op := "bvult"
			if signed {
				op = "bvslt"
			}
			var c Term
			if name == "min" {
				c = bvCmp(op, b, cur)
			} else {
				c = bvCmp(op, cur, b)
			}
			cur = Ite(c, b, cur)
		}
		return TV{T: x.C.Name(name, cur), Typ: t}, nil
	case "print", "println":
		return nil, nil
	case "panic":
		return nil, unsupported("panic builtin as call")
	case "clear":
		return nil, unsupported("clear builtin")
	case "recover":
		return TV{T: x.C.Zero(types.NewInterfaceType(nil, nil)), Typ: types.NewInterfaceType(nil, nil)}, nil
	}
	return nil, unsupported("builtin %s", name)
}

const smallCopy = 64

// copyElems returns dst array with n elements copied from src[srcOff..] to dst[dstOff..].
func (x *Exec) copyElems(dst, dstOff, src, srcOff, n Term) Term {
	if c, ok := n.Const(); ok && c.IsInt64() && c.Int64() <= smallCopy {
		out := dst
		for i := int64(0); i < c.Int64(); i++ {
			k := BVInt(i, 64)
			out = Store(out, bvBin("bvadd", dstOff, k), Select(src, bvBin("bvadd", srcOff, k)))
		}
		return out
	}
	return x.copyElemsBounded(dst, dstOff, src, srcOff, n, -1)
}

// copyElemsBounded: like copyElems; when the symbolic count n is known to be at most `bound` (a small constant),
// the copy is unrolled into guarded stores instead of a lambda term.
func (x *Exec) copyElemsBounded(dst, dstOff, src, srcOff, n Term, bound int64) Term {
	if c, ok := n.Const(); ok && c.IsInt64() && c.Int64() <= smallCopy {
		return x.copyElems(dst, dstOff, src, srcOff, n)
	}
	if bound >= 0 && bound <= smallCopy {
		out := dst
		for i := int64(0); i < bound; i++ {
			k := BVInt(i, 64)
			// (each step is named: `out` occurs twice in the step, so an unnamed chain doubles in size per element)
			out = x.C.Name("cpb", Ite(bvCmp("bvult", k, n), Store(out, bvBin("bvadd", dstOff, k), Select(src, bvBin("bvadd", srcOff, k))), out))
		}
		return out
	}
	// symbolic length: lambda array (z3)
	x.C.usesLambda = true
	body := fmt.Sprintf("(lambda ((j!c (_ BitVec 64))) (ite (and (bvuge j!c %s) (bvult (bvsub j!c %s) %s)) (select %s (bvadd %s (bvsub j!c %s))) (select %s j!c)))",
		dstOff.S, dstOff.S, n.S, src.S, srcOff.S, dstOff.S, dst.S)
	return Raw(dst.Sort, body)
}

func (x *Exec) builtinCopy(fr *Frame, st *State, call *ssa.CallCommon, args []Val) (Val, error) {
	dst := args[0].(TV).T
	elemT := call.Args[0].Type().Underlying().(*types.Slice).Elem()
	r, hs := x.elemRegion(elemT)
	var srcArr, srcOff, srcLen Term
	var srcCapT *Term
	if b, ok := call.Args[1].Type().Underlying().(*types.Basic); ok && b.Info()&types.IsString != 0 {
		srcArr = x.C.Fresh("strbytes", SArr(SIdx, x.C.SortOf(elemT)))
		srcOff = BVInt(0, 64)
		srcLen = App(SIdx, "str_len", args[1].(TV).T)
	} else {
		src := args[1].(TV).T
		h := x.heapGet(st, r, hs)
		srcArr = x.C.Name("cpsrc", Select(h, SlBase(src)))
		srcOff = SlOff(src)
		srcLen = SlLen(src)
		sc := SlCap(src)
		srcCapT = &sc
	}
	n := x.C.Name("cpn", Ite(bvCmp("bvult", SlLen(dst), srcLen), SlLen(dst), srcLen))
	var snapBack *snapOrigin
	if x.snapRefs[SlBase(dst).S] {
		// copy(s.arr[:], src) where s.arr is an array embedded in a struct: the copy goes into the snapshot, then the
		// whole array is written back to its home — only when the home has not been written since the slice was made
		so, ok := x.snapOrigins[SlBase(dst).S]
		if !ok || so.Epoch != st.Epoch || so.HeapS != st.Heap[so.P.Region].S {
			return nil, unsupported("copy into snapshot slice")
		}
		snapBack = &so
	}
	h := x.heapGet(st, r, hs)
	darr := Select(h, SlBase(dst))
	// n <= len <= cap of both operands: a constant capacity bounds the copy
	bound := int64(-1)
	if c, ok := SlCap(dst).Const(); ok && c.IsInt64() {
		bound = c.Int64()
	}
	if srcCapT != nil {
		if c, ok := srcCapT.Const(); ok && c.IsInt64() && (bound < 0 || c.Int64() < bound) {
			bound = c.Int64()
		}
	}
	if _, isConst := n.Const(); !isConst && (bound < 0 || bound > smallCopy) {
		// ask the solver whether the count is provably small on this path (e.g. copies out of a stack buffer)
		for _, b := range []int64{8, 32, smallCopy} {
			if !x.feasible(And(st.PC, bvCmp("bvugt", n, BVInt(b, 64)))) {
				bound = b
				break
			}
		}
	}
	narr := x.copyElemsBounded(darr, SlOff(dst), srcArr, srcOff, n, bound)
	// copy with n == 0 must not touch the heap (dst may be nil)
	x.noteWrite(SlBase(dst), r)
	x.heapSet(st, r, Ite(Eq(n, BVInt(0, 64)), h, Store(h, SlBase(dst), narr)))
	if snapBack != nil {
		back := x.C.Name("snapback", Ite(Eq(n, BVInt(0, 64)), darr, narr))
		if err := x.Store(st, snapBack.P, TV{T: back, Typ: snapBack.Typ}); err != nil {
			return nil, unsupported("copy into snapshot slice: %v", err)
		}
		delete(x.snapOrigins, SlBase(dst).S) // the snapshot is stale from here on
	}
	return TV{T: n, Typ: types.Typ[types.Int]}, nil
}

// snapOrigin remembers where a snapshot slice of an interior array came from (see copy above).
type snapOrigin struct {
	P     PtrV
	Typ   types.Type
	Epoch int
	HeapS string
}

func (x *Exec) builtinAppend(fr *Frame, st *State, call *ssa.CallCommon, args []Val) (Val, error) {
	s := args[0].(TV).T
	st0 := call.Args[0].Type()
	elemT := st0.Underlying().(*types.Slice).Elem()
	r, hs := x.elemRegion(elemT)
	var srcArr, srcOff, n Term
	if b, ok := call.Args[1].Type().Underlying().(*types.Basic); ok && b.Info()&types.IsString != 0 {
		srcArr = x.C.Fresh("strbytes", SArr(SIdx, x.C.SortOf(elemT)))
		srcOff = BVInt(0, 64)
		n = App(SIdx, "str_len", args[1].(TV).T)
	} else {
		src := args[1].(TV).T
		h := x.heapGet(st, r, hs)
		srcArr = x.C.Name("apsrc", Select(h, SlBase(src)))
		srcOff = SlOff(src)
		n = SlLen(src)
	}
	ln, cp, off, base := SlLen(s), SlCap(s), SlOff(s), SlBase(s)
	newLen := x.C.Name("aplen", bvBin("bvadd", ln, n))
	fits := x.C.Name("apfits", bvCmp("bvule", newLen, cp))
	h := x.heapGet(st, r, hs)
	// in-place path
	inArr := x.copyElems(Select(h, base), bvBin("bvadd", off, ln), srcArr, srcOff, n)
	hIn := Store(h, base, inArr)
	// growth path: fresh backing, copy old then new
	newRef := st.Brk
	newCap := x.C.Fresh("apcap", SIdx)
	x.C.Assume(And(bvCmp("bvuge", newCap, newLen), bvCmp("bvule", newCap, BVUint(1<<41, 64))), "append growth: new cap >= new len")
	es := x.C.SortOf(elemT)
	zeroArr := ConstArray(SArr(SIdx, es), x.C.Zero(elemT))
	grown := x.copyElems(zeroArr, BVInt(0, 64), Select(h, base), off, ln)
	grown = x.copyElems(x.C.Name("apg", grown), ln, srcArr, srcOff, n)
	hGrow := Store(h, newRef, grown)
	// n == 0 and fits: Go returns s unchanged (heap untouched)
	x.noteWrite(base, r)
	x.heapSet(st, r, Ite(fits, Ite(Eq(n, BVInt(0, 64)), h, hIn), hGrow))
	st.Brk = x.C.Name("brk", Ite(fits, st.Brk, bvBin("bvadd", st.Brk, BVInt(1, 32))))
	res := Ite(fits, MkSlice(base, off, newLen, cp), MkSlice(newRef, BVInt(0, 64), newLen, newCap))
	if x.snapRefs[base.S] {
		x.C.Note("append to snapshot slice: in-place write is into the snapshot copy")
	}
	return TV{T: x.C.Name("app", res), Typ: st0}, nil
}
