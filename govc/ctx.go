package main

// Ctx: one verification context (one function under contract). Owns the SMT prelude (sorts, datatypes),
// the growing list of definitions, assumptions and obligations.

import (
	"regexp"
	"fmt"
	"go/types"
	"sort"
	"strings"
)

type Decl struct {
	S string
}

type Assumption struct {
	T      Term
	Prefix int // number of decls that must precede it
	Why    string
}

type ObKind string

type Instance struct {
	PC     Term
	Prop   Term
	Prefix int // decl prefix length
	NAssum int // assumptions prefix length
	Note   string
}

type Obligation struct {
	Name      string
	Kind      ObKind
	Fn        string
	Instances []Instance
	MustBeSat bool // cover obligations: (pc) must be satisfiable
	Bounded   string
	// results
	Status  string // discharged | failed | unknown
	Solver  string
	Seconds float64
	Model   string
	ModelVals map[string]string
	Detail  string
}

type Ctx struct {
	Prog *Program

	sortDecls   []string          // declare-sort / declare-datatypes, in dependency order
	sortOfCache map[string]Sort   // types.Type string -> sort
	structInfo  map[Sort]*StructS // datatype sort -> info
	sortBusy    map[string]bool

	decls   []string // declare-const / define-fun lines (ordered)
	nameCtr int
	assums  []Assumption
	obls    []*Obligation
	oblIdx  map[string]*Obligation

	specPrelude string // spec function definitions (SMT-LIB text)
	usedSpec    bool

	typeIDs  map[string]int
	typeList []types.Type
	implUFs  []implUF
	funcIDs  map[string]int
	funcByID map[int]interface{}
	strIDs   map[string]int

	named         map[string]Term // hash-consing table of named terms
	refDefs       map[string]string // definitions of named reference terms
	allocMemo     map[string]bool
	refGE         map[string]string // fresh allocator position -> the earlier position it is assumed to be at or above
	brk0          string
	declBytes     int
	timeoutFactor float64 // contract option `opt slow=<factor>`: solver time multiplier for a known-heavy function
	sizeHints  string
	nilHints   string
	lateDecls  []string
	queries    []Query
	usesLambda bool
	usesQuant  bool
	noName     int
	notes      []string // unmodelled / approximations encountered
	noteSet    map[string]bool
	trusted    map[string]bool // assumed contracts actually used
	unsupported []string
}

type StructS struct {
	Sort   Sort
	Ctor   string
	Fields []string // selector names
	FSorts []Sort
	T      *types.Struct
}

func NewCtx(p *Program) *Ctx {
	c := &Ctx{Prog: p, sortOfCache: map[string]Sort{}, structInfo: map[Sort]*StructS{}, sortBusy: map[string]bool{},
		oblIdx: map[string]*Obligation{}, typeIDs: map[string]int{}, funcIDs: map[string]int{}, funcByID: map[int]interface{}{},
		strIDs: map[string]int{}, noteSet: map[string]bool{}, trusted: map[string]bool{}}
	c.sortDecls = append(c.sortDecls,
		"(declare-sort Str 0)",
		"(declare-sort F64 0)",
		"(declare-datatypes ((Slice 0)) (((mk-slice (sl-base (_ BitVec 32)) (sl-off (_ BitVec 64)) (sl-len (_ BitVec 64)) (sl-cap (_ BitVec 64))))))",
		"(declare-datatypes ((Iface 0)) (((mk-iface (if-typ (_ BitVec 32)) (if-val (_ BitVec 64))))))",
		"(declare-fun str_len (Str) (_ BitVec 64))",
		"(declare-fun f64_of_bv64 ((_ BitVec 64)) F64)",
		"(declare-fun bv64_of_f64 (F64) (_ BitVec 64))",
		"(declare-fun f64_sqrt (F64) F64)",
	)
	return c
}

const SSlice Sort = "Slice"
const SIface Sort = "Iface"

func (c *Ctx) Note(s string) {
	if !c.noteSet[s] {
		c.noteSet[s] = true
		c.notes = append(c.notes, s)
	}
}

func sanitize(s string) string {
	var sb strings.Builder
	for _, r := range s {
		switch {
		case r >= 'a' && r <= 'z', r >= 'A' && r <= 'Z', r >= '0' && r <= '9', r == '_':
			sb.WriteRune(r)
		case r == '*':
			sb.WriteString("P")
		case r == '[' || r == ']':
			sb.WriteString("_")
		case r == '.' || r == '/':
			sb.WriteString("_")
		default:
			sb.WriteString("_")
		}
	}
	return sb.String()
}

func shortTypeName(t types.Type) string {
	s := types.TypeString(t, func(p *types.Package) string { return p.Name() })
	return sanitize(s)
}

// SortOf maps a Go type to its SMT sort.
func (c *Ctx) SortOf(t types.Type) Sort {
	key := t.String()
	if s, ok := c.sortOfCache[key]; ok {
		return s
	}
	s := c.sortOf1(t)
	c.sortOfCache[key] = s
	return s
}

func intWidth(b *types.Basic) (int, bool) {
	switch b.Kind() {
	case types.Int8:
		return 8, true
	case types.Uint8:
		return 8, false
	case types.Int16:
		return 16, true
	case types.Uint16:
		return 16, false
	case types.Int32:
		return 32, true
	case types.Uint32:
		return 32, false
	case types.Int64, types.Int, types.UntypedInt, types.UntypedRune:
		return 64, true
	case types.Uint64, types.Uint, types.Uintptr:
		return 64, false
	}
	return 0, false
}

func isInteger(t types.Type) (int, bool, bool) {
	if b, ok := t.Underlying().(*types.Basic); ok {
		w, s := intWidth(b)
		if w > 0 {
			return w, s, true
		}
	}
	return 0, false, false
}

func (c *Ctx) sortOf1(t types.Type) Sort {
	switch u := t.Underlying().(type) {
	case *types.Basic:
		if w, _ := intWidth(u); w > 0 {
			return SBV(w)
		}
		switch u.Kind() {
		case types.Bool, types.UntypedBool:
			return SBool
		case types.String, types.UntypedString:
			return SStr
		case types.Float64, types.Float32, types.UntypedFloat:
			return SF64
		case types.UnsafePointer:
			return SRef
		case types.UntypedNil:
			return SRef
		}
		panic("unsupported basic type " + t.String())
	case *types.Pointer, *types.Map, *types.Chan:
		return SRef
	case *types.Signature:
		return SRef
	case *types.Slice:
		return SSlice
	case *types.Interface:
		return SIface
	case *types.Array:
		return SArr(SIdx, c.SortOf(u.Elem()))
	case *types.Struct:
		name := "S_" + shortTypeName(t)
		if _, isNamed := t.(*types.Named); !isNamed {
			if _, isAlias := t.(*types.Alias); !isAlias {
				name = fmt.Sprintf("S_anon%d", len(c.structInfo))
			}
		}
		// avoid collisions between different packages with same short name
		for {
			clash := false
			for _, si := range c.structInfo {
				if string(si.Sort) == name {
					clash = true
				}
			}
			if !clash {
				break
			}
			name += "_"
		}
		srt := Sort(name)
		c.sortOfCache[t.String()] = srt
		si := &StructS{Sort: srt, Ctor: "mk-" + name, T: u}
		c.structInfo[srt] = si
		var fs []string
		for i := 0; i < u.NumFields(); i++ {
			f := u.Field(i)
			fsort := c.SortOf(f.Type())
			sel := fmt.Sprintf("%s-%d-%s", name, i, sanitize(f.Name()))
			si.Fields = append(si.Fields, sel)
			si.FSorts = append(si.FSorts, fsort)
			fs = append(fs, fmt.Sprintf("(%s %s)", sel, fsort))
		}
		if len(fs) == 0 {
			c.sortDecls = append(c.sortDecls, fmt.Sprintf("(declare-datatypes ((%s 0)) (((%s))))", name, si.Ctor))
		} else {
			c.sortDecls = append(c.sortDecls, fmt.Sprintf("(declare-datatypes ((%s 0)) (((%s %s))))", name, si.Ctor, strings.Join(fs, " ")))
		}
		return srt
	case *types.Tuple:
		panic("tuple has no sort")
	}
	panic("unsupported type " + t.String())
}

func (c *Ctx) StructInfo(t types.Type) *StructS {
	s := c.SortOf(t)
	return c.structInfo[s]
}

// Zero value term for a Go type.
func (c *Ctx) Zero(t types.Type) Term {
	s := c.SortOf(t)
	return c.zeroOfSort(s, t)
}

func (c *Ctx) zeroOfSort(s Sort, t types.Type) Term {
	switch {
	case s == SBool:
		return TFalse
	case s.BVWidth() > 0:
		return BVInt(0, s.BVWidth())
	case s == SStr:
		return c.StrConst("")
	case s == SF64:
		return Raw(SF64, "f64_zero")
	case s == SSlice:
		return Raw(SSlice, "(mk-slice #x00000000 #x0000000000000000 #x0000000000000000 #x0000000000000000)")
	case s == SIface:
		return Raw(SIface, "(mk-iface #x00000000 #x0000000000000000)")
	case s.IsArray():
		_, es := s.ArrayParts()
		var et types.Type
		if t != nil {
			if a, ok := t.Underlying().(*types.Array); ok {
				et = a.Elem()
			}
		}
		return ConstArray(s, c.zeroOfSort(es, et))
	}
	if si, ok := c.structInfo[s]; ok {
		if len(si.Fields) == 0 {
			return Raw(s, si.Ctor)
		}
		var args []Term
		for i, fs := range si.FSorts {
			args = append(args, c.zeroOfSort(fs, si.T.Field(i).Type()))
		}
		return App(s, si.Ctor, args...)
	}
	panic("no zero for sort " + string(s))
}

func (c *Ctx) StrConst(v string) Term {
	id, ok := c.strIDs[v]
	if !ok {
		id = len(c.strIDs)
		c.strIDs[v] = id
		c.decls = append(c.decls, fmt.Sprintf("(declare-const strc%d Str)", id))
		c.decls = append(c.decls, fmt.Sprintf("(assert (= (str_len strc%d) %s))", id, BVInt(int64(len(v)), 64).S))
	}
	return Raw(SStr, fmt.Sprintf("strc%d", id))
}

// Fresh declares a new symbolic constant.
func (c *Ctx) Fresh(hint string, s Sort) Term {
	c.nameCtr++
	n := fmt.Sprintf("%s!%d", sanitize(hint), c.nameCtr)
	c.decls = append(c.decls, fmt.Sprintf("(declare-const %s %s)", n, s))
	return Raw(s, n)
}

// Name binds a term to a fresh name (define-fun) unless it is already atomic.
func (c *Ctx) Name(hint string, t Term) Term {
	if c.noName > 0 || t.isConst || !strings.HasPrefix(t.S, "(") {
		return t
	}
	if t.Sort == SSlice && strings.HasPrefix(t.S, "(mk-slice ") {
		// keep the constructor visible (lengths stay syntactically available); name the components instead
		parts := splitArgs(t.S)
		if len(parts) == 5 {
			srt := []Sort{SRef, SBV(64), SBV(64), SBV(64)}
			var comps []Term
			for i := 0; i < 4; i++ {
				comps = append(comps, c.Name(hint+"_"+[]string{"b", "o", "l", "c"}[i], atomTerm(parts[i+1], srt[i])))
			}
			return App(SSlice, "mk-slice", comps...)
		}
	}
	// size caps (a VC that outgrows them is a tool limit of this function, reported as such — never a silent pass)
	if len(t.S) > 2<<20 {
		panic(fmt.Sprintf("verification condition term exceeds the 2 MiB cap (%d bytes): the function needs a loop invariant or a callee contract", len(t.S)))
	}
	c.declBytes += len(t.S)
	if c.declBytes > 192<<20 {
		panic("verification conditions exceed the 192 MiB cap: the function needs a loop invariant or a callee contract")
	}
	// hash-consing: a term already named keeps its name (identical computations become syntactically identical)
	if c.named == nil {
		c.named = map[string]Term{}
	}
	if prev, ok := c.named[t.S]; ok && prev.Sort == t.Sort {
		return prev
	}
	c.nameCtr++
	n := fmt.Sprintf("%s!%d", sanitize(hint), c.nameCtr)
	c.decls = append(c.decls, fmt.Sprintf("(define-fun %s () %s %s)", n, t.Sort, t.S))
	r := Term{S: n, Sort: t.Sort, tree: t.tree}
	c.named[t.S] = r
	if t.Sort == SRef {
		if c.refDefs == nil {
			c.refDefs = map[string]string{}
		}
		c.refDefs[n] = t.S
	}
	return r
}

// AllocatedHere reports whether the reference term s is, syntactically, the bump pointer brk0 advanced a
// non-negative number of times (the engine only ever advances brk by 1 after assuming it is below 2^32-16): such a
// reference denotes an object allocated by the function under verification, never one that existed at entry.
// NoteRefGE records that the fresh reference constant `hi` was introduced under the assumption hi >= lo.
func (c *Ctx) NoteRefGE(hi, lo string) {
	if c.refGE == nil {
		c.refGE = map[string]string{}
	}
	c.refGE[hi] = lo
}

func (c *Ctx) AllocatedHere(s string) bool {
	if s == c.brk0 && s != "" {
		return true
	}
	if v, ok := c.allocMemo[s]; ok {
		return v
	}
	if c.allocMemo == nil {
		c.allocMemo = map[string]bool{}
	}
	res := false
	if d, ok := c.refDefs[s]; ok {
		res = c.AllocatedHere(d)
	} else if lo, ok := c.refGE[s]; ok {
		// a fresh allocator position assumed to be at or above an earlier one (after a call or a loop)
		res = c.AllocatedHere(lo)
	} else if strings.HasPrefix(s, "(ite ") {
		if p := splitArgs(s); len(p) == 4 {
			res = c.AllocatedHere(p[2]) && c.AllocatedHere(p[3])
		}
	} else if strings.HasPrefix(s, "(bvadd ") {
		if p := splitArgs(s); len(p) == 3 && strings.HasPrefix(p[2], "#x0000") {
			res = c.AllocatedHere(p[1])
		}
	}
	c.allocMemo[s] = res
	return res
}

func (c *Ctx) DeclRaw(s string) { c.decls = append(c.decls, s) }

// DeclOnce adds a global declaration (an uninterpreted function) to the prelude of every query, once.
func (c *Ctx) DeclOnce(s string) {
	for _, d := range c.sortDecls {
		if d == s {
			return
		}
	}
	c.sortDecls = append(c.sortDecls, s)
}

func (c *Ctx) Assume(t Term, why string) {
	if t.IsTrue() || c.noName > 0 {
		return
	}
	c.assums = append(c.assums, Assumption{T: t, Prefix: len(c.decls), Why: why})
}

func (c *Ctx) AddObligation(name string, kind ObKind, fn string, pc, prop Term, note string) *Obligation {
	o := c.oblIdx[name]
	if o == nil {
		o = &Obligation{Name: name, Kind: kind, Fn: fn}
		c.oblIdx[name] = o
		c.obls = append(c.obls, o)
	}
	if pc.IsFalse() || prop.IsTrue() {
		// trivially discharged instance: keep the obligation (counted) with no query
		return o
	}
	o.Instances = append(o.Instances, Instance{PC: pc, Prop: prop, Prefix: len(c.decls), NAssum: len(c.assums), Note: note})
	return o
}

func (c *Ctx) AddCover(name string, fn string, pc Term) *Obligation {
	o := c.oblIdx[name]
	if o == nil {
		o = &Obligation{Name: name, Kind: "cover", Fn: fn, MustBeSat: true}
		c.oblIdx[name] = o
		c.obls = append(c.obls, o)
	}
	o.Instances = append(o.Instances, Instance{PC: pc, Prop: TFalse, Prefix: len(c.decls), NAssum: len(c.assums)})
	return o
}

var aliasByte = regexp.MustCompile(`\bbyte\b`)
var aliasRune = regexp.MustCompile(`\brune\b`)

// typeKey is a canonical text for identical types ([]byte and []uint8 get the same dynamic type ID).
func typeKey(t types.Type) string {
	return aliasRune.ReplaceAllString(aliasByte.ReplaceAllString(t.String(), "uint8"), "int32")
}

func (c *Ctx) TypeID(t types.Type) int {
	k := typeKey(t)
	id, ok := c.typeIDs[k]
	if !ok {
		id = len(c.typeIDs) + 1
		c.typeIDs[k] = id
		c.typeList = append(c.typeList, t)
		for _, u := range c.implUFs {
			c.implAxiom(u, t, id)
		}
	}
	return id
}

// implUF is the uninterpreted predicate "dynamic type implements interface I", axiomatised for every concrete type
// the run has given an ID (other IDs stay unconstrained: either answer is possible for an unknown dynamic type).
type implUF struct {
	Name  string
	Iface types.Type
}

func (c *Ctx) implAxiom(u implUF, t types.Type, id int) {
	if _, isIface := t.Underlying().(*types.Interface); isIface {
		return
	}
	it, _ := u.Iface.Underlying().(*types.Interface)
	if it == nil {
		return
	}
	v := "false"
	if types.Implements(t, it) {
		v = "true"
	}
	c.DeclOnce(fmt.Sprintf("(assert (= (%s #x%08x) %s))", u.Name, id, v))
}

// Implements returns the term "the dynamic type typ (a type ID) implements interface type at".
func (c *Ctx) Implements(typ Term, at types.Type) Term {
	name := "impl_" + sanitizeFile(at.String())
	found := false
	for _, u := range c.implUFs {
		if u.Name == name {
			found = true
		}
	}
	if !found {
		u := implUF{Name: name, Iface: at}
		c.implUFs = append(c.implUFs, u)
		c.DeclOnce(fmt.Sprintf("(declare-fun %s ((_ BitVec 32)) Bool)", name))
		c.DeclOnce(fmt.Sprintf("(assert (not (%s #x00000000)))", name))
		for _, t := range c.typeList {
			c.implAxiom(u, t, c.typeIDs[typeKey(t)])
		}
	}
	return App(SBool, name, typ)
}

// Script builds the SMT-LIB text for one obligation instance.
func (c *Ctx) Script(inst Instance, forModel bool, extra string) string {
	var head, body []string
	head = append(head, "(set-option :produce-models true)", "(set-logic ALL)")
	head = append(head, c.sortDecls...)
	head = append(head, "(declare-const f64_zero F64)")
	if c.usedSpec {
		head = append(head, c.specPrelude)
	}
	ai := 0
	for i := 0; i < inst.Prefix; i++ {
		for ai < inst.NAssum && c.assums[ai].Prefix <= i {
			body = append(body, "(assert "+c.assums[ai].T.S+")")
			ai++
		}
		body = append(body, c.decls[i])
	}
	for ai < inst.NAssum {
		body = append(body, "(assert "+c.assums[ai].T.S+")")
		ai++
	}
	if forModel {
		// initial-heap constants first mentioned after this obligation was recorded (model queries and size hints refer to them)
		for i := inst.Prefix; i < len(c.decls); i++ {
			if strings.HasPrefix(c.decls[i], "(declare-const heap0_") {
				body = append(body, c.decls[i])
			}
		}
	}
	body = append(body, c.lateDecls...)
	body = append(body, "(assert "+inst.PC.S+")", "(assert (not "+inst.Prop.S+"))")
	if extra != "" {
		body = append(body, strings.TrimRight(extra, "\n"))
	}
	body = append(body, "(check-sat)")
	if forModel {
		if gv := getValueCmd(c.queries); gv != "" {
			body = append(body, strings.TrimRight(gv, "\n"))
		}
	}
	body = pruneDefinitions(body)
	return strings.Join(head, "\n") + "\n" + strings.Join(body, "\n") + "\n"
}

// pruneDefinitions drops the define-fun / declare-const lines that nothing in the query refers to (directly or through
// other definitions). Large unused definitions (constant tables of read-only globals, heaps of untaken paths) cost the
// solvers real time although they cannot affect the answer.
func pruneDefinitions(lines []string) []string {
	defLine := map[string]int{}
	for i, l := range lines {
		if strings.HasPrefix(l, "(define-fun ") || strings.HasPrefix(l, "(declare-const ") {
			rest := l[strings.Index(l, " ")+1:]
			if k := strings.IndexAny(rest, " )"); k > 0 {
				defLine[rest[:k]] = i
			}
		}
	}
	keep := make([]bool, len(lines))
	var work []int
	isDef := func(i int) bool {
		return strings.HasPrefix(lines[i], "(define-fun ") || strings.HasPrefix(lines[i], "(declare-const ")
	}
	for i := range lines {
		if !isDef(i) {
			keep[i] = true
			work = append(work, i)
		}
	}
	for len(work) > 0 {
		i := work[len(work)-1]
		work = work[:len(work)-1]
		l := lines[i]
		start := -1
		for k := 0; k <= len(l); k++ {
			delim := k == len(l) || l[k] == ' ' || l[k] == '(' || l[k] == ')' || l[k] == '\n' || l[k] == '\t'
			if !delim {
				if start < 0 {
					start = k
				}
				continue
			}
			if start >= 0 {
				if di, ok := defLine[l[start:k]]; ok && !keep[di] {
					keep[di] = true
					work = append(work, di)
				}
				start = -1
			}
		}
	}
	out := make([]string, 0, len(lines))
	for i, l := range lines {
		if keep[i] {
			out = append(out, l)
		}
	}
	return out
}

func (c *Ctx) SortedNotes() []string {
	out := append([]string{}, c.notes...)
	sort.Strings(out)
	return out
}
