package main

// Package-level variables that are only ever read (lookup tables such as PVM.opcodeInfoTable) keep the value of
// their initialiser. The value is taken from the constant composite literal in the source (go/types constant
// evaluation); variables that are written anywhere outside their declaration, or whose address escapes, stay
// unconstrained.

import (
	"fmt"
	"os"
	"go/ast"
	"go/constant"
	"go/token"
	"go/types"
	"math/big"
	"sort"
	"strings"

	"golang.org/x/tools/go/packages"
	"golang.org/x/tools/go/ssa"
)

// readOnlyGlobals computes, once per program, the set of globals never stored to / escaped outside init functions.
func (p *Program) readOnlyGlobal(g *ssa.Global) bool {
	p.mu.Lock()
	defer p.mu.Unlock()
	if p.roGlobals == nil {
		p.roGlobals = map[*ssa.Global]bool{}
		written := map[*ssa.Global]bool{}
		var rootOf func(v ssa.Value) *ssa.Global
		rootOf = func(v ssa.Value) *ssa.Global {
			switch v := v.(type) {
			case *ssa.Global:
				return v
			case *ssa.FieldAddr:
				return rootOf(v.X)
			case *ssa.IndexAddr:
				return rootOf(v.X)
			}
			return nil
		}
		for fn := range ssautilAllFunctions(p.SSA) {
			if fn.Synthetic != "" && fn.Name() == "init" {
				continue
			}
			for _, b := range fn.Blocks {
				for _, ins := range b.Instrs {
					switch ins := ins.(type) {
					case *ssa.Store:
						if g := rootOf(ins.Addr); g != nil {
							written[g] = true
						}
						if g := rootOf(ins.Val); g != nil {
							written[g] = true // address stored somewhere
						}
					case *ssa.UnOp, *ssa.FieldAddr, *ssa.IndexAddr, *ssa.DebugRef:
						// reads / address arithmetic
					default:
						// any other use of an address rooted at a global (call argument, slice, conversion, ...) escapes it
						for _, op := range ins.Operands(nil) {
							if op == nil || *op == nil {
								continue
							}
							if g := rootOf(*op); g != nil {
								if sl, ok := ins.(*ssa.Slice); ok && sl.X == *op {
									// slicing a global array: the slice may be written through; treat as escape
								}
								written[g] = true
							}
						}
					}
				}
			}
		}
		for _, pkg := range p.SSA.AllPackages() {
			for _, m := range pkg.Members {
				if g, ok := m.(*ssa.Global); ok && !written[g] {
					p.roGlobals[g] = true
				}
			}
		}
	}
	return p.roGlobals[g]
}

func ssautilAllFunctions(prog *ssa.Program) map[*ssa.Function]bool {
	out := map[*ssa.Function]bool{}
	var visit func(f *ssa.Function)
	visit = func(f *ssa.Function) {
		if f == nil || out[f] {
			return
		}
		out[f] = true
		for _, a := range f.AnonFuncs {
			visit(a)
		}
	}
	for _, pkg := range prog.AllPackages() {
		for _, m := range pkg.Members {
			switch m := m.(type) {
			case *ssa.Function:
				visit(m)
			case *ssa.Type:
				for _, T := range []types.Type{m.Type(), types.NewPointer(m.Type())} {
					ms := prog.MethodSets.MethodSet(T)
					for i := 0; i < ms.Len(); i++ {
						visit(prog.MethodValue(ms.At(i)))
					}
				}
			}
		}
	}
	return out
}

// globalInitExpr finds the initialiser expression of a package-level variable.
func (p *Program) globalInitExpr(g *ssa.Global) (ast.Expr, *types.Info) {
	if g.Pkg == nil {
		return nil, nil
	}
	pk := p.ByPath[g.Pkg.Pkg.Path()]
	if pk == nil {
		return nil, nil
	}
	var found ast.Expr
	for _, f := range pk.Syntax {
		for _, d := range f.Decls {
			gd, ok := d.(*ast.GenDecl)
			if !ok || gd.Tok != token.VAR {
				continue
			}
			for _, sp := range gd.Specs {
				vs := sp.(*ast.ValueSpec)
				for i, n := range vs.Names {
					if n.Name == g.Name() && pk.TypesInfo.Defs[n] == g.Object() && i < len(vs.Values) && len(vs.Values) == len(vs.Names) {
						found = vs.Values[i]
					}
				}
			}
		}
	}
	return found, pk.TypesInfo
}

var _ = packages.NeedName

// constTermOf builds the term of a constant expression (composite literals of constants) of type t; ok=false otherwise.
func (x *Exec) constTermOf(e ast.Expr, t types.Type, info *types.Info) (Term, bool) {
	if tv, ok := info.Types[e]; ok && tv.Value != nil {
		switch u := t.Underlying().(type) {
		case *types.Basic:
			if w, _ := intWidth(u); w > 0 {
				iv, ok := constant.Val(constant.ToInt(tv.Value)).(*big.Int)
				if !ok {
					i64, exact := constant.Int64Val(constant.ToInt(tv.Value))
					if !exact {
						return Term{}, false
					}
					iv = big.NewInt(i64)
				}
				return BVConst(iv, w), true
			}
			switch u.Kind() {
			case types.Bool:
				return BoolConst(constant.BoolVal(tv.Value)), true
			case types.String:
				return x.C.StrConst(constant.StringVal(tv.Value)), true
			}
		}
		return Term{}, false
	}
	if _, isSig := t.Underlying().(*types.Signature); isSig {
		// a package-level function used as a value (entry of a dispatch table)
		if id, ok := e.(*ast.Ident); ok {
			if fo, ok := info.Uses[id].(*types.Func); ok {
				if fn := x.P.SSA.FuncValue(fo); fn != nil {
					return x.FuncRefTerm(fn), true
				}
			}
			if id.Name == "nil" {
				return BVInt(0, 32), true
			}
		}
		return Term{}, false
	}
	cl, ok := e.(*ast.CompositeLit)
	if !ok {
		return Term{}, false
	}
	switch u := t.Underlying().(type) {
	case *types.Array:
		arr := x.C.Zero(t)
		idx := int64(0)
		for _, el := range cl.Elts {
			val := el
			if kv, ok := el.(*ast.KeyValueExpr); ok {
				ktv, ok := info.Types[kv.Key]
				if !ok || ktv.Value == nil {
					return Term{}, false
				}
				k, exact := constant.Int64Val(constant.ToInt(ktv.Value))
				if !exact {
					return Term{}, false
				}
				idx = k
				val = kv.Value
			}
			et, ok := x.constTermOf(val, u.Elem(), info)
			if !ok {
				return Term{}, false
			}
			arr = Store(arr, BVInt(idx, 64), et)
			idx++
		}
		return arr, true
	case *types.Struct:
		si := x.C.StructInfo(t)
		args := make([]Term, u.NumFields())
		for i := 0; i < u.NumFields(); i++ {
			args[i] = x.C.Zero(u.Field(i).Type())
		}
		for i, el := range cl.Elts {
			fi := i
			val := el
			if kv, ok := el.(*ast.KeyValueExpr); ok {
				id, ok := kv.Key.(*ast.Ident)
				if !ok {
					return Term{}, false
				}
				fi = -1
				for k := 0; k < u.NumFields(); k++ {
					if u.Field(k).Name() == id.Name {
						fi = k
					}
				}
				val = kv.Value
			}
			if fi < 0 || fi >= u.NumFields() {
				return Term{}, false
			}
			ft, ok := x.constTermOf(val, u.Field(fi).Type(), info)
			if !ok {
				return Term{}, false
			}
			args[fi] = ft
		}
		if len(args) == 0 {
			return Raw(si.Sort, si.Ctor), true
		}
		return App(si.Sort, si.Ctor, args...), true
	}
	return Term{}, false
}

// stableGlobals: package variables declared `stable` or `readonly` in contract files (assumed not to be written while
// the functions under contract run; listed as an assumption) that have been referenced so far or are declared.
func (x *Exec) stableGlobals() []*ssa.Global {
	if x.DB == nil {
		return nil
	}
	if x.stableCache == nil {
		x.stableCache = []*ssa.Global{}
		// (read-only variables with a constant initialiser are not listed: loads read the initialiser itself)
		for _, set := range []map[string]bool{x.DB.Stable, x.DB.ReadOnly} {
			for name := range set {
				i := strings.LastIndex(name, ".")
				if i < 0 {
					continue
				}
				for _, pkg := range x.P.SSA.AllPackages() {
					if pkg.Pkg.Path() == name[:i] {
						if g, ok := pkg.Members[name[i+1:]].(*ssa.Global); ok {
							if x.DB.ReadOnly[name] {
								if e, _ := x.P.globalInitExpr(g); e != nil {
									continue
								}
							}
							x.stableCache = append(x.stableCache, g)
						}
					}
				}
			}
		}
		sort.Slice(x.stableCache, func(i, j int) bool { return x.stableCache[i].String() < x.stableCache[j].String() })
		if len(x.DB.Stable) > 0 {
			x.C.trusted["package variables declared stable (protocol parameters) are not modified while the functions under contract run"] = true
		}
	}
	return x.stableCache
}

// constrainGlobal: on first use of a read-only global with a constant initialiser, pin its initial-heap content.
func (x *Exec) constrainGlobal(g *ssa.Global, p PtrV) {
	if x.globalPinned[g] {
		return
	}
	x.globalPinned[g] = true
	declared := x.DB != nil && g.Pkg != nil && x.DB.ReadOnly[g.Pkg.Pkg.Path()+"."+g.Name()]
	if !x.P.readOnlyGlobal(g) && !declared {
		return
	}
	if declared && !x.P.readOnlyGlobal(g) {
		x.C.trusted["package variable "+g.Name()+" is declared read-only in the contract file (its address escapes; no store to it was found)"] = true
	}
	e, info := x.P.globalInitExpr(g)
	if os.Getenv("GOVC_DEBUG") != "" {
		fmt.Fprintf(os.Stderr, "constrainGlobal %s: declared=%v ro=%v init=%v\n", g.Name(), declared, x.P.readOnlyGlobal(g), e != nil)
	}
	if e == nil {
		return
	}
	elem := g.Type().Underlying().(*types.Pointer).Elem()
	t, ok := x.constTermOf(e, elem, info)
	if os.Getenv("GOVC_DEBUG") != "" {
		fmt.Fprintf(os.Stderr, "constrainGlobal %s: constTermOf ok=%v\n", g.Name(), ok)
	}
	if !ok {
		return
	}
	t = x.C.Name("ginit_"+g.Name(), t)
	// loads from the variable read the initialiser directly (no heap dependence, nothing to keep across havoc)
	if x.roInit == nil {
		x.roInit = map[string]Term{}
	}
	x.roInit[p.Base.S] = t
	// element table of an array literal: loads at a constant index get the element term itself (foldable)
	if at, ok := elem.Underlying().(*types.Array); ok {
		if cl, ok := e.(*ast.CompositeLit); ok {
			elems := map[int64]Term{}
			idx := int64(0)
			good := true
			for _, el := range cl.Elts {
				val := el
				if kv, ok := el.(*ast.KeyValueExpr); ok {
					if ktv, ok := info.Types[kv.Key]; ok && ktv.Value != nil {
						if k, exact := constant.Int64Val(constant.ToInt(ktv.Value)); exact {
							idx = k
						}
					}
					val = kv.Value
				}
				et, ok := x.constTermOf(val, at.Elem(), info)
				if !ok {
					good = false
					break
				}
				elems[idx] = et
				idx++
			}
			if good {
				if x.roElems == nil {
					x.roElems = map[string]map[int64]Term{}
				}
				x.roElems[p.Base.S] = elems
			}
		}
	}
	x.C.trusted["read-only package variables hold their constant initialisers ("+g.Name()+")"] = true
}
