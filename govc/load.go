package main

import (
	"fmt"
	"go/ast"
	"go/token"
	"go/types"
	"os"
	"path/filepath"
	"strings"
	"sync"

	"golang.org/x/tools/go/packages"
	"golang.org/x/tools/go/ssa"
	"golang.org/x/tools/go/ssa/ssautil"
)

const modPath = "github.com/New-JAMneration/JAM-Protocol"

type Program struct {
	Fset     *token.FileSet
	Pkgs     []*packages.Package
	SSA      *ssa.Program
	ByPath   map[string]*packages.Package
	RepoDir  string
	mu       sync.Mutex
	srcCache map[string][]string
	fnIndex  map[string]*ssa.Function
	roGlobals map[*ssa.Global]bool
}

func LoadProgram(repo string, patterns []string) (*Program, error) {
	overlay := map[string][]byte{}
	vrfStub, err := os.ReadFile(filepath.Join(verifDir(), "stubs/vrf/vrf.go"))
	if err != nil {
		return nil, err
	}
	ecStub, err := os.ReadFile(filepath.Join(verifDir(), "stubs/erasure/erasure_coding.go"))
	if err != nil {
		return nil, err
	}
	overlay[filepath.Join(repo, "pkg/Rust-VRF/vrf-func-ffi/src/vrf.go")] = vrfStub
	overlay[filepath.Join(repo, "pkg/erasure_coding/erasure_coding.go")] = ecStub
	cfg := &packages.Config{
		Mode: packages.NeedName | packages.NeedFiles | packages.NeedCompiledGoFiles | packages.NeedImports |
			packages.NeedTypes | packages.NeedTypesSizes | packages.NeedSyntax | packages.NeedTypesInfo | packages.NeedDeps | packages.NeedModule,
		Dir:        repo,
		Overlay:    overlay,
		BuildFlags: []string{"-tags=verif"},
		Env:        append(os.Environ(), "CGO_ENABLED=0", "GOFLAGS=-mod=mod", "GOPROXY=off", "GOSUMDB=off", "GOTOOLCHAIN=local"),
	}
	pkgs, err := packages.Load(cfg, patterns...)
	if err != nil {
		return nil, err
	}
	nerr := 0
	packages.Visit(pkgs, nil, func(p *packages.Package) {
		for _, e := range p.Errors {
			// bodiless stub functions are reported as "missing function body": expected
			if strings.Contains(e.Msg, "missing function body") {
				continue
			}
			if strings.HasPrefix(p.PkgPath, modPath) {
				fmt.Fprintf(os.Stderr, "load error in %s: %s\n", p.PkgPath, e)
				nerr++
			}
		}
	})
	if nerr > 0 {
		return nil, fmt.Errorf("%d load errors", nerr)
	}
	prog, _ := ssautil.AllPackages(pkgs, ssa.InstantiateGenerics|ssa.GlobalDebug)
	prog.Build()
	p := &Program{Fset: cfg.Fset, Pkgs: pkgs, SSA: prog, ByPath: map[string]*packages.Package{}, RepoDir: repo, srcCache: map[string][]string{}, fnIndex: map[string]*ssa.Function{}}
	if p.Fset == nil {
		p.Fset = pkgs[0].Fset
	}
	packages.Visit(pkgs, nil, func(pk *packages.Package) { p.ByPath[pk.PkgPath] = pk })
	return p, nil
}

func verifDir() string {
	if d := os.Getenv("VERIF_DIR"); d != "" {
		return d
	}
	return "/verif"
}

// FindFunc resolves "pkgpath.Func" or "pkgpath.(*T).Method" / "pkgpath.T.Method" (pkgpath relative to module allowed).
func (p *Program) FindFunc(name string) *ssa.Function {
	p.mu.Lock()
	defer p.mu.Unlock()
	if f, ok := p.fnIndex[name]; ok {
		return f
	}
	full := name
	if !strings.HasPrefix(full, modPath) && !strings.Contains(strings.SplitN(full, ".", 2)[0], "/") == false {
		full = modPath + "/" + full
	} else if !strings.HasPrefix(full, modPath) {
		full = modPath + "/" + full
	}
	// split pkg path and member
	// find last '/' then first '.' after it
	slash := strings.LastIndex(full, "/")
	dot := strings.Index(full[slash+1:], ".")
	if dot < 0 {
		return nil
	}
	pkgPath := full[:slash+1+dot]
	member := full[slash+1+dot+1:]
	var spkg *ssa.Package
	for _, sp := range p.SSA.AllPackages() {
		if sp.Pkg.Path() == pkgPath {
			spkg = sp
		}
	}
	if spkg == nil {
		return nil
	}
	var fn *ssa.Function
	if strings.HasPrefix(member, "(*") || strings.Contains(member, ".") {
		// method
		recv, meth := "", ""
		ptr := false
		if strings.HasPrefix(member, "(*") {
			end := strings.Index(member, ")")
			recv = member[2:end]
			meth = member[end+2:]
			ptr = true
		} else {
			i := strings.Index(member, ".")
			recv, meth = member[:i], member[i+1:]
		}
		tm := spkg.Members[recv]
		if tm == nil {
			return nil
		}
		t, ok := tm.(*ssa.Type)
		if !ok {
			return nil
		}
		var T types.Type = t.Type()
		if ptr {
			T = types.NewPointer(T)
		}
		ms := p.SSA.MethodSets.MethodSet(T)
		for i := 0; i < ms.Len(); i++ {
			if ms.At(i).Obj().Name() == meth {
				fn = p.SSA.MethodValue(ms.At(i))
			}
		}
	} else {
		fn = spkg.Func(member)
	}
	p.fnIndex[name] = fn
	return fn
}

// SrcLine returns the trimmed source line at pos.
func (p *Program) SrcLine(pos token.Pos) string {
	if !pos.IsValid() {
		return ""
	}
	position := p.Fset.Position(pos)
	p.mu.Lock()
	defer p.mu.Unlock()
	lines, ok := p.srcCache[position.Filename]
	if !ok {
		b, err := os.ReadFile(position.Filename)
		if err == nil {
			lines = strings.Split(string(b), "\n")
		}
		p.srcCache[position.Filename] = lines
	}
	if position.Line-1 < len(lines) && position.Line >= 1 {
		return strings.TrimSpace(lines[position.Line-1])
	}
	return ""
}

func (p *Program) RelPos(pos token.Pos) string {
	if !pos.IsValid() {
		return "?"
	}
	position := p.Fset.Position(pos)
	rel, err := filepath.Rel(p.RepoDir, position.Filename)
	if err != nil {
		rel = position.Filename
	}
	return fmt.Sprintf("%s:%d", rel, position.Line)
}

// FuncDisplayName gives "pkg.Func" / "pkg.(*T).M" with the module prefix stripped.
func FuncDisplayName(f *ssa.Function) string {
	s := f.String()
	s = strings.ReplaceAll(s, modPath+"/", "")
	return s
}

// contract comment files: all files named verif_contracts*.go in loaded packages (build tag verif)
func (p *Program) ContractFiles() []*ast.File {
	var out []*ast.File
	packages.Visit(p.Pkgs, nil, func(pk *packages.Package) {
		if !strings.HasPrefix(pk.PkgPath, modPath) {
			return
		}
		for i, f := range pk.Syntax {
			name := filepath.Base(pk.CompiledGoFiles[i])
			if strings.HasPrefix(name, "verif_contracts") {
				out = append(out, f)
			}
		}
	})
	return out
}

// FileImportName: the local name under which the file defining fn imports package imp ("" when not renamed or unknown).
func (p *Program) FileImportName(fn *ssa.Function, imp *types.Package) string {
	if fn == nil || fn.Syntax() == nil {
		return ""
	}
	pos := fn.Syntax().Pos()
	for _, pkg := range p.Pkgs {
		for _, f := range pkg.Syntax {
			if f.Pos() <= pos && pos <= f.End() {
				for _, is := range f.Imports {
					if strings.Trim(is.Path.Value, "\"") == imp.Path() && is.Name != nil {
						return is.Name.Name
					}
				}
			}
		}
	}
	return ""
}
