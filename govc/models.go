package main

// Assumed contracts ("models") for standard-library functions: the trusted base listed in every evidence file that used them.

import (
	"fmt"
	"go/types"
	"strings"

	"golang.org/x/tools/go/ssa"
)

func (x *Exec) trust(name string) { x.C.trusted[name] = true }

func bvTV(t Term, typ types.Type) Val { return TV{T: t, Typ: typ} }

// clz builds count-leading-zeros of a w-bit term as a 64-bit int term.
func clz(a Term, w int) Term {
	// nested ite from the top bit
	res := BVInt(int64(w), 64)
	for i := 0; i < w; i++ {
		// if bit i set (from low to high), clz = w-1-i ; higher bits override later
		bit := Eq(Extract(i, i, a), BVInt(1, 1))
		res = Ite(bit, BVInt(int64(w-1-i), 64), res)
	}
	return res
}

func ctz(a Term, w int) Term {
	res := BVInt(int64(w), 64)
	for i := w - 1; i >= 0; i-- {
		bit := Eq(Extract(i, i, a), BVInt(1, 1))
		res = Ite(bit, BVInt(int64(i), 64), res)
	}
	return res
}

func popcount(a Term, w int) Term {
	res := BVInt(0, 64)
	for i := 0; i < w; i++ {
		res = bvBin("bvadd", res, ZeroExt(Extract(i, i, a), 64))
	}
	return res
}

func reverseBytes(a Term, w int) Term {
	var cur *Term
	for i := 0; i < w/8; i++ {
		b := Extract(i*8+7, i*8, a)
		if cur == nil {
			cur = &b
		} else {
			c := Concat(*cur, b)
			cur = &c
		}
	}
	return *cur
}

func (x *Exec) loadLE(st *State, s Term, nbytes int, big bool) Term {
	r, hs := x.elemRegion(types.Typ[types.Uint8])
	h := x.heapGet(st, r, hs)
	arr := x.C.Name("lesrc", Select(h, SlBase(s)))
	var cur *Term
	for i := 0; i < nbytes; i++ {
		b := Select(arr, bvBin("bvadd", SlOff(s), BVInt(int64(i), 64)))
		if cur == nil {
			cur = &b
		} else {
			var c Term
			if big {
				c = Concat(*cur, b)
			} else {
				c = Concat(b, *cur)
			}
			cur = &c
		}
	}
	return *cur
}

func (x *Exec) storeLE(st *State, s Term, v Term, nbytes int, big bool) {
	r, hs := x.elemRegion(types.Typ[types.Uint8])
	h := x.heapGet(st, r, hs)
	arr := Select(h, SlBase(s))
	for i := 0; i < nbytes; i++ {
		var b Term
		if big {
			k := nbytes - 1 - i
			b = Extract(k*8+7, k*8, v)
		} else {
			b = Extract(i*8+7, i*8, v)
		}
		arr = Store(arr, bvBin("bvadd", SlOff(s), BVInt(int64(i), 64)), b)
	}
	x.noteWrite(SlBase(s), r)
	x.heapSet(st, r, Store(h, SlBase(s), arr))
}

// model returns (results, handled, error)
func (x *Exec) model(fr *Frame, st *State, fn *ssa.Function, args []Val, site ssa.Instruction) ([]Val, bool, error) {
	name := fn.String()
	T := func(i int) Term { return args[i].(TV).T }
	intT := types.Typ[types.Int]
	u64T := types.Typ[types.Uint64]
	bounds := func(s Term, n int, what string) {
		if site != nil {
			ok := bvCmp("bvuge", SlLen(s), BVInt(int64(n), 64))
			x.obligation(fr, site, "idx", st.PC, ok, what+": slice shorter than "+fmt.Sprint(n))
			x.C.Assume(Implies(x.absPC(st.PC),ok), "continuing past "+what)
		}
	}
	if strings.HasPrefix(name, "maps.Clone[") && len(args) == 1 {
		// maps.Clone: a new map with the same entries (shallow: values are copied as they are); nil stays nil
		if mt, ok := fn.Signature.Params().At(0).Type().Underlying().(*types.Map); ok {
			_ = mt
			x.trust("maps.Clone returns a new map holding the same key/value pairs (nil for nil)")
			mtyp := fn.Signature.Params().At(0).Type()
			mr, err := x.mapRegions(mtyp)
			if err != nil {
				return nil, true, err
			}
			m := T(0)
			ref := st.Brk
			st.Brk = x.C.Name("brk", bvBin("bvadd", st.Brk, BVInt(1, 32)))
			x.C.Assume(bvCmp("bvult", ref, BVUint(0xfffffff0, 32)), "allocator does not exhaust 2^32 references")
			d := x.heapGet(st, mr.D, mr.DS)
			x.heapSet(st, mr.D, Store(d, ref, Select(d, m)))
			v := x.heapGet(st, mr.V, mr.VS)
			x.heapSet(st, mr.V, Store(v, ref, Select(v, m)))
			l := x.heapGet(st, mr.L, mr.LS)
			x.heapSet(st, mr.L, Store(l, ref, Select(l, m)))
			res := Ite(Eq(m, BVInt(0, 32)), m, ref)
			return []Val{TV{T: x.C.Name("mclone", res), Typ: fn.Signature.Results().At(0).Type()}}, true, nil
		}
	}
	switch name {
	case "math/bits.LeadingZeros8", "math/bits.LeadingZeros16", "math/bits.LeadingZeros32", "math/bits.LeadingZeros64":
		x.trust(name)
		w := T(0).Sort.BVWidth()
		return []Val{bvTV(x.C.Name("clz", clz(T(0), w)), intT)}, true, nil
	case "math/bits.TrailingZeros8", "math/bits.TrailingZeros16", "math/bits.TrailingZeros32", "math/bits.TrailingZeros64":
		x.trust(name)
		w := T(0).Sort.BVWidth()
		return []Val{bvTV(x.C.Name("ctz", ctz(T(0), w)), intT)}, true, nil
	case "math/bits.OnesCount8", "math/bits.OnesCount16", "math/bits.OnesCount32", "math/bits.OnesCount64":
		x.trust(name)
		w := T(0).Sort.BVWidth()
		return []Val{bvTV(x.C.Name("popc", popcount(T(0), w)), intT)}, true, nil
	case "math/bits.Len8", "math/bits.Len16", "math/bits.Len32", "math/bits.Len64", "math/bits.Len":
		x.trust(name)
		w := T(0).Sort.BVWidth()
		return []Val{bvTV(x.C.Name("bitlen", bvBin("bvsub", BVInt(int64(w), 64), clz(T(0), w))), intT)}, true, nil
	case "math/bits.ReverseBytes16", "math/bits.ReverseBytes32", "math/bits.ReverseBytes64":
		x.trust(name)
		w := T(0).Sort.BVWidth()
		return []Val{bvTV(x.C.Name("bswap", reverseBytes(T(0), w)), fn.Signature.Results().At(0).Type())}, true, nil
	case "math/bits.RotateLeft8", "math/bits.RotateLeft16", "math/bits.RotateLeft32", "math/bits.RotateLeft64":
		x.trust(name)
		w := T(0).Sort.BVWidth()
		// k mod w (Go: negative k rotates right); k is int
		k := T(1)
		km := bvBin("bvand", k, BVInt(int64(w-1), 64)) // works for two's complement since w is a power of two
		cnt := Resize(km, w, false)
		r := bvBin("bvor", bvBin("bvshl", T(0), cnt), bvBin("bvlshr", T(0), bvBin("bvand", bvBin("bvsub", BVInt(int64(w), w), cnt), BVInt(int64(w-1), w))))
		// when cnt == 0 the right shift amount is 0 too => r = x|x = x
		return []Val{bvTV(x.C.Name("rotl", r), fn.Signature.Results().At(0).Type())}, true, nil
	case "math/bits.Mul64":
		x.trust(name)
		p := x.C.Name("mul128", bvBin("bvmul", ZeroExt(T(0), 128), ZeroExt(T(1), 128)))
		return []Val{bvTV(x.C.Name("mulhi", Extract(127, 64, p)), u64T), bvTV(x.C.Name("mullo", Extract(63, 0, p)), u64T)}, true, nil
	case "math/bits.Add64":
		x.trust(name)
		s := x.C.Name("add65", bvBin("bvadd", bvBin("bvadd", ZeroExt(T(0), 65), ZeroExt(T(1), 65)), ZeroExt(T(2), 65)))
		return []Val{bvTV(Extract(63, 0, s), u64T), bvTV(ZeroExt(Extract(64, 64, s), 64), u64T)}, true, nil
	case "math/bits.Sub64":
		x.trust(name)
		s := x.C.Name("sub65", bvBin("bvsub", bvBin("bvsub", ZeroExt(T(0), 65), ZeroExt(T(1), 65)), ZeroExt(T(2), 65)))
		return []Val{bvTV(Extract(63, 0, s), u64T), bvTV(ZeroExt(Extract(64, 64, s), 64), u64T)}, true, nil
	case "(encoding/binary.littleEndian).Uint16", "(encoding/binary.littleEndian).Uint32", "(encoding/binary.littleEndian).Uint64",
		"(encoding/binary.bigEndian).Uint16", "(encoding/binary.bigEndian).Uint32", "(encoding/binary.bigEndian).Uint64":
		x.trust(name)
		n := map[byte]int{'6': 2, '2': 4, '4': 8}[name[len(name)-1]]
		s := T(1)
		bounds(s, n, name)
		v := x.loadLE(st, s, n, strings.Contains(name, "bigEndian"))
		return []Val{bvTV(x.C.Name("le", v), fn.Signature.Results().At(0).Type())}, true, nil
	case "(encoding/binary.littleEndian).PutUint16", "(encoding/binary.littleEndian).PutUint32", "(encoding/binary.littleEndian).PutUint64",
		"(encoding/binary.bigEndian).PutUint16", "(encoding/binary.bigEndian).PutUint32", "(encoding/binary.bigEndian).PutUint64":
		x.trust(name)
		n := map[byte]int{'6': 2, '2': 4, '4': 8}[name[len(name)-1]]
		s := T(1)
		bounds(s, n, name)
		x.storeLE(st, s, T(2), n, strings.Contains(name, "bigEndian"))
		return nil, true, nil
	case "(encoding/binary.littleEndian).AppendUint16", "(encoding/binary.littleEndian).AppendUint32", "(encoding/binary.littleEndian).AppendUint64":
		x.trust(name)
		return nil, false, nil
	case "bytes.Equal":
		x.trust(name)
		eq, err := x.bytesEqual(st, T(0), T(1))
		if err != nil {
			return nil, true, err
		}
		return []Val{bvTV(x.C.Name("beq", eq), types.Typ[types.Bool])}, true, nil
	case "bytes.Compare":
		x.trust(name)
		c, err := x.bytesCompare(st, T(0), T(1))
		if err != nil {
			return nil, true, err
		}
		return []Val{bvTV(x.C.Name("bcmp", c), intT)}, true, nil
	case "bytes.Clone", "slices.Clone[[]byte byte]", "slices.Clone[[]uint8 uint8]":
		x.trust(name)
		s := T(0)
		r, hs := x.elemRegion(types.Typ[types.Uint8])
		h := x.heapGet(st, r, hs)
		src := Select(h, SlBase(s))
		es := SBV(8)
		content := x.copyElems(ConstArray(SArr(SIdx, es), BVInt(0, 8)), BVInt(0, 64), src, SlOff(s), SlLen(s))
		content = x.C.Name("clone", content)
		ref := x.AllocBacking(st, types.Typ[types.Uint8], &content)
		res := Ite(Eq(SlBase(s), BVInt(0, 32)), s, MkSlice(ref, BVInt(0, 64), SlLen(s), SlLen(s)))
		return []Val{bvTV(x.C.Name("cloned", res), fn.Signature.Results().At(0).Type())}, true, nil
	case "encoding/binary.Read":
		// binary.Read(r, order, data) for r = *bytes.Reader and data = pointer to a fixed-size value:
		// io.ReadFull semantics — n = size of *data; fewer than n octets left => error (reader advanced to the end
		// or left in place when empty), otherwise *data is decoded from the next n octets and the reader advances by n.
		call, ok := site.(*ssa.Call)
		if !ok || len(call.Call.Args) != 3 {
			return nil, false, nil
		}
		mr, ok1 := call.Call.Args[0].(*ssa.MakeInterface)
		md, ok2 := call.Call.Args[2].(*ssa.MakeInterface)
		if !ok1 || !ok2 || mr.X.Type().String() != "*bytes.Reader" {
			return nil, false, nil
		}
		pt, ok := md.X.Type().Underlying().(*types.Pointer)
		if !ok {
			return nil, false, nil
		}
		bits, ok := binBits(pt.Elem())
		if !ok || bits%8 != 0 || bits > 8*65536 {
			return nil, false, nil
		}
		big := strings.Contains(call.Call.Args[1].Type().String(), "bigEndian")
		if mo, ok := call.Call.Args[1].(*ssa.MakeInterface); ok {
			big = strings.Contains(mo.X.Type().String(), "bigEndian")
		}
		x.trust("encoding/binary.Read on *bytes.Reader with fixed-size data (io.ReadFull semantics, little/big endian)")
		n := int64(bits / 8)
		rv, err := x.valueOf(fr, mr.X)
		if err != nil {
			return nil, true, err
		}
		rp := rv.(PtrV)
		dv, err := x.valueOf(fr, md.X)
		if err != nil {
			return nil, true, err
		}
		dp := dv.(PtrV)
		x.obligation(fr, site, "nil", st.PC, Not(Eq(rp.Base, BVInt(0, 32))), "binary.Read on nil *bytes.Reader")
		x.C.Assume(Implies(x.absPC(st.PC), Not(Eq(rp.Base, BVInt(0, 32)))), "continuing past nil check")
		rt := pt // keep names distinct
		_ = rt
		readerT := mr.X.Type().Underlying().(*types.Pointer).Elem()
		rst := readerT.Underlying().(*types.Struct)
		fieldIdx := func(name string) int {
			for i := 0; i < rst.NumFields(); i++ {
				if rst.Field(i).Name() == name {
					return i
				}
			}
			return -1
		}
		fs, fi := fieldIdx("s"), fieldIdx("i")
		if fs < 0 || fi < 0 {
			return nil, false, nil
		}
		sPtr := rp
		sPtr.Path = append(append([]Step{}, rp.Path...), Step{IsField: true, Field: fs})
		sPtr.Typ = types.NewPointer(rst.Field(fs).Type())
		iPtr := rp
		iPtr.Path = append(append([]Step{}, rp.Path...), Step{IsField: true, Field: fi})
		iPtr.Typ = types.NewPointer(rst.Field(fi).Type())
		sv, err := x.Load(st, sPtr)
		if err != nil {
			return nil, true, err
		}
		iv, err := x.Load(st, iPtr)
		if err != nil {
			return nil, true, err
		}
		s, i := sv.(TV).T, iv.(TV).T
		remaining := x.C.Name("brrem", bvBin("bvsub", SlLen(s), i))
		enough := x.C.Name("brok", bvCmp("bvsge", remaining, BVInt(n, 64)))
		// new position: i+n when enough, len(s) otherwise (ReadFull drains what is there)
		newI := Ite(enough, bvBin("bvadd", i, BVInt(n, 64)), Ite(bvCmp("bvsgt", remaining, BVInt(0, 64)), SlLen(s), i))
		if err := x.Store(st, iPtr, TV{T: x.C.Name("bri", newI), Typ: rst.Field(fi).Type()}); err != nil {
			return nil, true, err
		}
		// decoded value
		r, hs := x.elemRegion(types.Typ[types.Uint8])
		h := x.heapGet(st, r, hs)
		arr := x.C.Name("brsrc", Select(h, SlBase(s)))
		off := x.C.Name("broff", bvBin("bvadd", SlOff(s), i))
		val, _ := x.fromBytes(pt.Elem(), arr, off, 0, big)
		old, err := x.Load(st, dp)
		if err != nil {
			return nil, true, err
		}
		oldT, err := x.toTerm(old)
		if err != nil {
			return nil, true, err
		}
		// on a short read the destination may have been partially written: unknown value
		junk := x.C.Fresh("brjunk", val.Sort)
		_ = oldT
		if err := x.Store(st, dp, TV{T: x.C.Name("brval", Ite(enough, val, junk)), Typ: pt.Elem()}); err != nil {
			return nil, true, err
		}
		eid := x.C.Fresh("err", SBV(64))
		x.C.Assume(Not(Eq(eid, BVInt(0, 64))), "error values are non-nil")
		tid := BVInt(int64(x.C.TypeID(types.Universe.Lookup("error").Type())), 32)
		errv := Ite(enough, x.C.zeroOfSort(SIface, nil), App(SIface, "mk-iface", tid, eid))
		return []Val{bvTV(x.C.Name("brerr", errv), fn.Signature.Results().At(0).Type())}, true, nil
	case "(*bytes.Buffer).Write", "(*bytes.Buffer).WriteByte", "(*bytes.Buffer).Reset":
		// bytes.Buffer as the octet string buf[off:]: Write(p) / WriteByte(c) append to it, Reset empties it. The model
		// always re-allocates (content and length are exact; capacity and the identity of the backing array, which the
		// buffer's API does not expose except through aliasing of Bytes() across later writes, are not modelled)
		bp, ok := args[0].(PtrV)
		if !ok {
			return nil, false, nil
		}
		x.trust("bytes.Buffer Write/WriteByte/Reset modelled on its content buf[off:] (fresh backing array on every write)")
		if site != nil {
			x.obligation(fr, site, "nil", st.PC, Not(Eq(bp.Base, BVInt(0, 32))), "method call on a nil *bytes.Buffer")
			x.C.Assume(Implies(x.absPC(st.PC), Not(Eq(bp.Base, BVInt(0, 32)))), "continuing past nil check")
		}
		bst := bp.Typ.Underlying().(*types.Pointer).Elem().Underlying().(*types.Struct)
		bfld := func(name string) (PtrV, types.Type) {
			for i := 0; i < bst.NumFields(); i++ {
				if bst.Field(i).Name() == name {
					p := bp
					p.Path = append(append([]Step{}, bp.Path...), Step{IsField: true, Field: i})
					p.Typ = types.NewPointer(bst.Field(i).Type())
					return p, bst.Field(i).Type()
				}
			}
			return PtrV{}, nil
		}
		bufP, bufT := bfld("buf")
		offP, offT := bfld("off")
		if bufT == nil || offT == nil {
			return nil, false, nil
		}
		u8 := types.Typ[types.Uint8]
		if name == "(*bytes.Buffer).Reset" {
			if err := x.Store(st, bufP, TV{T: MkSlice(BVInt(0, 32), BVInt(0, 64), BVInt(0, 64), BVInt(0, 64)), Typ: bufT}); err != nil {
				return nil, true, err
			}
			if err := x.Store(st, offP, TV{T: BVInt(0, 64), Typ: offT}); err != nil {
				return nil, true, err
			}
			return []Val{}, true, nil
		}
		bv, err := x.Load(st, bufP)
		if err != nil {
			return nil, true, err
		}
		ov, err := x.Load(st, offP)
		if err != nil {
			return nil, true, err
		}
		buf, off := bv.(TV).T, ov.(TV).T
		x.C.Assume(Implies(x.absPC(st.PC), And(bvCmp("bvsge", off, BVInt(0, 64)), bvCmp("bvsle", off, SlLen(buf)))), "library invariant: read offset within the buffer")
		r, hs := x.elemRegion(u8)
		h := x.heapGet(st, r, hs)
		ln := x.C.Name("bwlen", bvBin("bvsub", SlLen(buf), off))
		zero := ConstArray(SArr(SIdx, SBV(8)), BVInt(0, 8))
		grown := x.copyElems(zero, BVInt(0, 64), Select(h, SlBase(buf)), bvBin("bvadd", SlOff(buf), off), ln)
		var n Term
		if name == "(*bytes.Buffer).Write" {
			p := args[1].(TV).T
			n = SlLen(p)
			grown = x.copyElems(x.C.Name("bwold", grown), ln, x.C.Name("bwsrc", Select(h, SlBase(p))), SlOff(p), n)
		} else {
			n = BVInt(1, 64)
			grown = Store(x.C.Name("bwold", grown), ln, args[1].(TV).T)
		}
		grown = x.C.Name("bwnew", grown)
		ref := x.AllocBacking(st, u8, &grown)
		newLen := x.C.Name("bwnl", bvBin("bvadd", ln, n))
		if err := x.Store(st, bufP, TV{T: MkSlice(ref, BVInt(0, 64), newLen, newLen), Typ: bufT}); err != nil {
			return nil, true, err
		}
		if err := x.Store(st, offP, TV{T: BVInt(0, 64), Typ: offT}); err != nil {
			return nil, true, err
		}
		nilErr := bvTV(x.C.zeroOfSort(SIface, nil), types.Universe.Lookup("error").Type())
		if name == "(*bytes.Buffer).WriteByte" {
			return []Val{nilErr}, true, nil
		}
		return []Val{bvTV(n, types.Typ[types.Int]), nilErr}, true, nil
	case "io.ReadFull":
		// io.ReadFull(r, buf) for r = *bytes.Buffer / *bytes.Reader: n = min(len(buf), unread) octets are copied and
		// consumed; err == nil iff n == len(buf) (io.EOF / io.ErrUnexpectedEOF otherwise)
		call, ok := site.(*ssa.Call)
		if !ok || len(call.Call.Args) != 2 {
			return nil, false, nil
		}
		rtv, ok := args[0].(TV)
		if !ok {
			return nil, false, nil
		}
		org, ok := x.ifaceOrigin[rtv.T.S]
		if !ok {
			return nil, false, nil
		}
		var sName, iName string
		switch org.Typ.String() {
		case "*bytes.Buffer":
			sName, iName = "buf", "off"
		case "*bytes.Reader":
			sName, iName = "s", "i"
		default:
			return nil, false, nil
		}
		x.trust("io.ReadFull on " + org.Typ.String() + " (copies min(len(buf), unread) octets, error iff short)")
		rp, ok := org.Val.(PtrV)
		if !ok {
			return nil, false, nil
		}
		x.obligation(fr, site, "nil", st.PC, Not(Eq(rp.Base, BVInt(0, 32))), "io.ReadFull on a nil reader")
		x.C.Assume(Implies(x.absPC(st.PC), Not(Eq(rp.Base, BVInt(0, 32)))), "continuing past nil check")
		rst := org.Typ.Underlying().(*types.Pointer).Elem().Underlying().(*types.Struct)
		fld := func(name string) (PtrV, types.Type, bool) {
			for i := 0; i < rst.NumFields(); i++ {
				if rst.Field(i).Name() == name {
					p := rp
					p.Path = append(append([]Step{}, rp.Path...), Step{IsField: true, Field: i})
					p.Typ = types.NewPointer(rst.Field(i).Type())
					return p, rst.Field(i).Type(), true
				}
			}
			return PtrV{}, nil, false
		}
		sPtr, _, ok1 := fld(sName)
		iPtr, iTyp, ok2 := fld(iName)
		if !ok1 || !ok2 {
			return nil, false, nil
		}
		sv, err := x.Load(st, sPtr)
		if err != nil {
			return nil, true, err
		}
		iv, err := x.Load(st, iPtr)
		if err != nil {
			return nil, true, err
		}
		s, i := sv.(TV).T, iv.(TV).T
		x.C.Assume(Implies(x.absPC(st.PC), And(bvCmp("bvsge", i, BVInt(0, 64)), bvCmp("bvsle", i, SlLen(s)))), "library invariant: read offset within the buffer")
		dst := args[1].(TV).T
		avail := x.C.Name("rfavail", bvBin("bvsub", SlLen(s), i))
		want := SlLen(dst)
		full := x.C.Name("rffull", bvCmp("bvsle", want, avail))
		n := x.C.Name("rfn", Ite(full, want, avail))
		if err := x.Store(st, iPtr, TV{T: x.C.Name("rfi", bvBin("bvadd", i, n)), Typ: iTyp}); err != nil {
			return nil, true, err
		}
		r, hs := x.elemRegion(types.Typ[types.Uint8])
		h := x.heapGet(st, r, hs)
		srcArr := x.C.Name("rfsrc", Select(h, SlBase(s)))
		narr := x.copyElems(Select(h, SlBase(dst)), SlOff(dst), srcArr, bvBin("bvadd", SlOff(s), i), n)
		x.noteWrite(SlBase(dst), r)
		x.heapSet(st, r, Ite(Eq(n, BVInt(0, 64)), h, Store(h, SlBase(dst), narr)))
		eid := x.C.Fresh("err", SBV(64))
		x.C.Assume(Not(Eq(eid, BVInt(0, 64))), "error values are non-nil")
		tid := BVInt(int64(x.C.TypeID(types.Universe.Lookup("error").Type())), 32)
		errv := Ite(full, x.C.zeroOfSort(SIface, nil), App(SIface, "mk-iface", tid, eid))
		return []Val{bvTV(n, types.Typ[types.Int]), bvTV(x.C.Name("rferr", errv), fn.Signature.Results().At(1).Type())}, true, nil
	case modPath + "/internal/utilities/hash.KeccakHash", modPath + "/internal/utilities/hash.Blake2bHash":
		// cryptographic hashes: uninterpreted functions of the input octets (same storage, offset and length give
		// the same digest; nothing else is known about the value), no effect on memory
		x.trust("hash.KeccakHash / hash.Blake2bHash are pure functions of their input octets (uninterpreted)")
		uf := "uf_keccak"
		if strings.HasSuffix(name, "Blake2bHash") {
			uf = "uf_blake2b"
		}
		rowS := SArr(SIdx, SBV(8))
		x.C.DeclOnce(fmt.Sprintf("(declare-fun %s (%s (_ BitVec 64) (_ BitVec 64)) %s)", uf, rowS, rowS))
		in := T(0)
		r, hs := x.elemRegion(types.Typ[types.Uint8])
		h := x.heapGet(st, r, hs)
		row := x.C.Name("hashin", Select(h, SlBase(in)))
		dig := x.C.Name("digest", App(rowS, uf, row, SlOff(in), SlLen(in)))
		return []Val{x.fromTerm(dig, fn.Signature.Results().At(0).Type())}, true, nil
	case "math.Sqrt":
		x.C.Note("math.Sqrt is an uninterpreted function")
		return []Val{bvTV(App(SF64, "f64_sqrt", T(0)), types.Typ[types.Float64])}, true, nil
	case "errors.New", "fmt.Errorf":
		x.trust(name)
		id := x.C.Fresh("err", SBV(64))
		x.C.Assume(Not(Eq(id, BVInt(0, 64))), "error values are non-nil")
		tid := BVInt(int64(x.C.TypeID(types.Universe.Lookup("error").Type())), 32)
		return []Val{bvTV(App(SIface, "mk-iface", tid, id), fn.Signature.Results().At(0).Type())}, true, nil
	case "fmt.Sprintf", "fmt.Sprint", "fmt.Sprintln", "encoding/hex.EncodeToString", "strconv.Itoa":
		return []Val{bvTV(x.C.Fresh("str", SStr), types.Typ[types.String])}, true, nil
	}
	return nil, false, nil
}

// fromBytes decodes a fixed-size value of type t from octets arr[off+k...] (k starts at byte offset `at`);
// returns the term and the number of octets consumed.
func (x *Exec) fromBytes(t types.Type, arr, off Term, at int64, big bool) (Term, int64) {
	switch u := t.Underlying().(type) {
	case *types.Basic:
		w, _ := intWidth(u)
		if u.Kind() == types.Bool {
			return Not(Eq(Select(arr, bvBin("bvadd", off, BVInt(at, 64))), BVInt(0, 8))), 1
		}
		n := int64(w / 8)
		var cur *Term
		for k := int64(0); k < n; k++ {
			b := Select(arr, bvBin("bvadd", off, BVInt(at+k, 64)))
			if cur == nil {
				cur = &b
			} else {
				var c Term
				if big {
					c = Concat(*cur, b)
				} else {
					c = Concat(b, *cur)
				}
				cur = &c
			}
		}
		return *cur, n
	case *types.Array:
		if b, ok := u.Elem().Underlying().(*types.Basic); ok && b.Kind() == types.Uint8 && u.Len() > 64 {
			// long octet array: element k is source octet off+at+k (octets past the array length are never read)
			x.C.usesLambda = true
			src := bvBin("bvadd", off, BVInt(at, 64))
			lam := Raw(SArr(SIdx, SBV(8)), fmt.Sprintf("(lambda ((k!fb (_ BitVec 64))) (select %s (bvadd %s k!fb)))", arr.S, src.S))
			return x.C.Name("fbl", lam), u.Len()
		}
		es := x.C.SortOf(u.Elem())
		out := ConstArray(SArr(SIdx, es), x.C.Zero(u.Elem()))
		used := int64(0)
		for i := int64(0); i < u.Len(); i++ {
			e, n := x.fromBytes(u.Elem(), arr, off, at+used, big)
			out = Store(out, BVInt(i, 64), e)
			used += n
		}
		return x.C.Name("fb", out), used
	case *types.Struct:
		si := x.C.StructInfo(t)
		var args []Term
		used := int64(0)
		for i := 0; i < u.NumFields(); i++ {
			e, n := x.fromBytes(u.Field(i).Type(), arr, off, at+used, big)
			args = append(args, e)
			used += n
		}
		return App(si.Sort, si.Ctor, args...), used
	}
	return x.C.Fresh("fb", x.C.SortOf(t)), 0
}

func (x *Exec) modelInvoke(fr *Frame, st *State, call *ssa.CallCommon, recv TV, args []Val) []Val {
	name := call.Method.FullName()
	switch name {
	case "(error).Error":
		return []Val{bvTV(x.C.Fresh("errstr", SStr), types.Typ[types.String])}
	}
	return nil
}

// bytesEqual: lengths equal and contents equal (bounded unrolling for constant lengths, quantifier otherwise).
func (x *Exec) bytesEqual(st *State, a, b Term) (Term, error) {
	r, hs := x.elemRegion(types.Typ[types.Uint8])
	h := x.heapGet(st, r, hs)
	aa := x.C.Name("beqa", Select(h, SlBase(a)))
	ba := x.C.Name("beqb", Select(h, SlBase(b)))
	la, lb := SlLen(a), SlLen(b)
	if c, ok := la.Const(); ok && c.IsInt64() && c.Int64() <= 256 {
		conj := []Term{Eq(la, lb)}
		for i := int64(0); i < c.Int64(); i++ {
			k := BVInt(i, 64)
			conj = append(conj, Eq(Select(aa, bvBin("bvadd", SlOff(a), k)), Select(ba, bvBin("bvadd", SlOff(b), k))))
		}
		return And(conj...), nil
	}
	if c, ok := lb.Const(); ok && c.IsInt64() && c.Int64() <= 256 {
		return x.bytesEqual(st, b, a)
	}
	q := fmt.Sprintf("(forall ((j!e (_ BitVec 64))) (=> (bvult j!e %s) (= (select %s (bvadd %s j!e)) (select %s (bvadd %s j!e)))))", la.S, aa.S, SlOff(a).S, ba.S, SlOff(b).S)
	return And(Eq(la, lb), Raw(SBool, q)), nil
}

// bytesCompare for constant equal lengths (lexicographic); otherwise abstract with sign only.
func (x *Exec) bytesCompare(st *State, a, b Term) (Term, error) {
	la, lb := SlLen(a), SlLen(b)
	ca, oka := la.Const()
	cb, okb := lb.Const()
	if oka && okb && ca.Cmp(cb) == 0 && ca.IsInt64() && ca.Int64() <= 64 && ca.Int64() > 0 {
		n := int(ca.Int64())
		r, hs := x.elemRegion(types.Typ[types.Uint8])
		h := x.heapGet(st, r, hs)
		aa := x.C.Name("bcpa", Select(h, SlBase(a)))
		ba := x.C.Name("bcpb", Select(h, SlBase(b)))
		// big-endian concatenation: byte 0 most significant
		var va, vb *Term
		for i := 0; i < n; i++ {
			k := BVInt(int64(i), 64)
			ea := Select(aa, bvBin("bvadd", SlOff(a), k))
			eb := Select(ba, bvBin("bvadd", SlOff(b), k))
			if va == nil {
				va, vb = &ea, &eb
			} else {
				ca2 := Concat(*va, ea)
				cb2 := Concat(*vb, eb)
				va, vb = &ca2, &cb2
			}
		}
		A := x.C.Name("bcA", *va)
		B := x.C.Name("bcB", *vb)
		return Ite(bvCmp("bvult", A, B), BVInt(-1, 64), Ite(Eq(A, B), BVInt(0, 64), BVInt(1, 64))), nil
	}
	x.C.Note("bytes.Compare on non-constant lengths abstracted: result in {-1,0,1}, 0 iff bytes.Equal")
	eq, err := x.bytesEqual(st, a, b)
	if err != nil {
		return Term{}, err
	}
	c := x.C.Fresh("bcmp", SIdx)
	x.C.Assume(And(Or(Eq(c, BVInt(-1, 64)), Eq(c, BVInt(0, 64)), Eq(c, BVInt(1, 64))), Eq(Eq(c, BVInt(0, 64)), eq)), "bytes.Compare abstract contract")
	return c, nil
}

// binBits: encoded size in bits of a fixed-size value as encoding/binary sees it (no padding).
func binBits(t types.Type) (int, bool) {
	switch u := t.Underlying().(type) {
	case *types.Basic:
		if w, _ := intWidth(u); w > 0 {
			return w, true
		}
		if u.Kind() == types.Bool {
			return 8, true
		}
	case *types.Array:
		w, ok := binBits(u.Elem())
		if !ok || u.Len()*int64(w) > 8*65536 {
			return 0, false
		}
		return int(u.Len()) * w, true
	case *types.Struct:
		tot := 0
		for i := 0; i < u.NumFields(); i++ {
			w, ok := binBits(u.Field(i).Type())
			if !ok {
				return 0, false
			}
			tot += w
		}
		return tot, tot > 0
	}
	return 0, false
}
