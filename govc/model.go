package main

// Model extraction: which terms to ask the solver for after a `sat`, and parsing of the answers.

import (
	"fmt"
	"go/types"
	"strings"
)

type Query struct {
	Label string // e.g. "data.len", "data[3]", "*interp.Registers[7]", "post:*interp.Registers[7]"
	T     Term
	Typ   types.Type // Go type of scalar values (nil for synthetic components such as .len)
}

const modelElems = 40

// modelQueries builds the list of (label, term) pairs describing the inputs (in the initial heap) of a function.
func (x *Exec) modelQueries(params []ParamInfo, results []ParamInfo) []Query {
	var qs []Query
	init := &State{PC: TTrue, Heap: map[string]Term{}, Epoch: 0, Brk: BVInt(0, 32)}
	for _, p := range params {
		x.queriesFor(&qs, init, p.Name, p.Val, p.Typ, 0)
	}
	for _, r := range results {
		// results are reported as the solver sees them (post-state values are not dereferenced)
		x.queriesFor(&qs, nil, r.Name, r.Val, r.Typ, 0)
	}
	return qs
}

// postQueries: scalar contents of the objects reachable through pointer parameters in the final state.
func (x *Exec) postQueries(params []ParamInfo, final *State) []Query {
	var qs []Query
	st := final.Clone()
	for _, p := range params {
		if _, ok := p.Val.(PtrV); !ok {
			continue
		}
		var sub []Query
		x.queriesFor(&sub, st, p.Name, p.Val, p.Typ, 0)
		for _, q := range sub {
			if q.Typ == nil || strings.HasSuffix(q.Label, ".ref") {
				continue
			}
			q.Label = "post:" + q.Label
			qs = append(qs, q)
		}
	}
	return qs
}

func (x *Exec) queriesFor(qs *[]Query, st *State, label string, v Val, t types.Type, depth int) {
	if depth > 5 || len(*qs) > 1500 {
		return
	}
	x.C.noName++
	defer func() { x.C.noName-- }()
	switch v := v.(type) {
	case TV:
		x.queriesForTerm(qs, st, label, v.T, t, depth)
	case PtrV:
		if len(v.Path) != 0 {
			return
		}
		*qs = append(*qs, Query{Label: label + ".ref", T: v.Base})
		if st == nil {
			return
		}
		elem := t.Underlying().(*types.Pointer).Elem()
		lv, err := x.Load(st, v)
		if err != nil {
			return
		}
		x.queriesFor(qs, st, "*"+label, lv, elem, depth+1)
	}
}

func (x *Exec) queriesForTerm(qs *[]Query, st *State, label string, t Term, typ types.Type, depth int) {
	if depth > 7 || len(*qs) > 1500 {
		return
	}
	switch u := typ.Underlying().(type) {
	case *types.Basic:
		if t.Sort.BVWidth() > 0 || t.Sort == SBool {
			*qs = append(*qs, Query{Label: label, T: t, Typ: typ})
		}
	case *types.Slice:
		*qs = append(*qs, Query{Label: label + ".len", T: SlLen(t)}, Query{Label: label + ".cap", T: SlCap(t)}, Query{Label: label + ".nil", T: Eq(SlBase(t), BVInt(0, 32))})
		if st == nil {
			return
		}
		if es := x.C.SortOf(u.Elem()); es.BVWidth() > 0 {
			r, hs := x.elemRegion(u.Elem())
			h := x.heapGet(st, r, hs)
			for i := 0; i < modelElems; i++ {
				*qs = append(*qs, Query{Label: fmt.Sprintf("%s[%d]", label, i), T: Select(Select(h, SlBase(t)), bvBin("bvadd", SlOff(t), BVInt(int64(i), 64))), Typ: u.Elem()})
			}
		}
	case *types.Array:
		n := int(u.Len())
		if n > modelElems {
			n = modelElems
		}
		for i := 0; i < n; i++ {
			x.queriesForTerm(qs, st, fmt.Sprintf("%s[%d]", label, i), Select(t, BVInt(int64(i), 64)), u.Elem(), depth+1)
		}
	case *types.Struct:
		si := x.C.StructInfo(typ)
		for i := 0; i < u.NumFields(); i++ {
			x.queriesForTerm(qs, st, label+"."+u.Field(i).Name(), App(si.FSorts[i], si.Fields[i], t), u.Field(i).Type(), depth+1)
		}
	case *types.Pointer:
		*qs = append(*qs, Query{Label: label + ".ref", T: t})
		if st != nil && depth < 4 {
			p := x.PtrFromTerm(t, typ)
			if lv, err := x.Load(st, p); err == nil {
				x.queriesFor(qs, st, "*"+label, lv, u.Elem(), depth+1)
			}
		}
	case *types.Interface:
		*qs = append(*qs, Query{Label: label + ".isnil", T: Eq(t, x.C.zeroOfSort(SIface, nil))})
	case *types.Map, *types.Signature:
		*qs = append(*qs, Query{Label: label + ".ref", T: t})
	}
}

func getValueCmd(qs []Query) string {
	if len(qs) == 0 {
		return ""
	}
	var sb strings.Builder
	for _, q := range qs {
		// one get-value per term keeps parsing trivial and survives a failing term
		fmt.Fprintf(&sb, "(get-value (%s))\n", q.T.S)
	}
	return sb.String()
}

// parseValues extracts the values printed by consecutive (get-value (t)) commands: lines of the form ((t v)).
func parseValues(out string, qs []Query) map[string]string {
	res := map[string]string{}
	// split the solver output after the first line into balanced s-expressions
	i := strings.Index(out, "\n")
	if i < 0 {
		return res
	}
	rest := out[i+1:]
	var exprs []string
	depth := 0
	start := -1
	for k := 0; k < len(rest); k++ {
		switch rest[k] {
		case '(':
			if depth == 0 {
				start = k
			}
			depth++
		case ')':
			depth--
			if depth == 0 && start >= 0 {
				exprs = append(exprs, rest[start:k+1])
				start = -1
			}
		}
	}
	qi := 0
	for _, e := range exprs {
		if strings.HasPrefix(e, "(error") {
			qi++
			continue
		}
		if qi >= len(qs) {
			break
		}
		// ((term value))
		inner := strings.TrimSpace(e[1 : len(e)-1])
		if !strings.HasPrefix(inner, "(") {
			continue
		}
		parts := splitArgs(inner)
		if len(parts) >= 2 {
			res[qs[qi].Label] = strings.Join(parts[1:], " ")
		}
		qi++
	}
	return res
}

func fmtModel(qs []Query, vals map[string]string) string {
	var sb strings.Builder
	for _, q := range qs {
		if v, ok := vals[q.Label]; ok {
			fmt.Fprintf(&sb, "  %s = %s\n", q.Label, v)
		}
	}
	return sb.String()
}
