package main

// Evaluation of contract expressions (a Go-expression subset) to symbolic values.

import (
	"fmt"
	"go/ast"
	"go/constant"
	"go/token"
	"go/types"
	"math/big"
	"sort"
	"strconv"
	"strings"

	"golang.org/x/tools/go/ssa"
)

// WideInt: pseudo integer type used by contracts (u128(...), results of spec functions).
type WideInt struct {
	Bits   int
	Signed bool
}

func (w *WideInt) Underlying() types.Type { return w }
func (w *WideInt) String() string {
	if w.Signed {
		return fmt.Sprintf("i%d", w.Bits)
	}
	return fmt.Sprintf("u%d", w.Bits)
}

// UConst: untyped integer constant.
type UConst struct{ V *big.Int }

type EvalEnv struct {
	X       *Exec
	Fn      *ssa.Function
	Fr      *Frame // may be nil
	Vars    map[string]Val
	Results []Val
	ResNames []string
	St      *State
	Old     *State
	Sigs    map[string]SpecSig
	InOld   bool
	LastFrame []Term // per-region conjuncts of the most recent frame_only evaluation
	LastFrameRegions []string
}

func (e *EvalEnv) state() *State {
	if e.InOld && e.Old != nil {
		return e.Old
	}
	return e.St
}

func intInfo(t types.Type) (int, bool, bool) {
	if w, ok := t.(*WideInt); ok {
		return w.Bits, w.Signed, true
	}
	return isInteger(t)
}

func typeForSort(s Sort) types.Type {
	if s == SBool {
		return types.Typ[types.Bool]
	}
	if w := s.BVWidth(); w > 0 {
		switch w {
		case 8:
			return types.Typ[types.Uint8]
		case 16:
			return types.Typ[types.Uint16]
		case 32:
			return types.Typ[types.Uint32]
		case 64:
			return types.Typ[types.Uint64]
		}
		return &WideInt{Bits: w}
	}
	return &OpaqueT{S: s}
}

// OpaqueT: a value of a spec-level sort with no Go type.
type OpaqueT struct{ S Sort }

func (o *OpaqueT) Underlying() types.Type { return o }
func (o *OpaqueT) String() string         { return "spec:" + string(o.S) }

func (e *EvalEnv) Bool(x ast.Expr) (Term, error) {
	v, err := e.Eval(x)
	if err != nil {
		return Term{}, err
	}
	tv, ok := v.(TV)
	if !ok || tv.T.Sort != SBool {
		return Term{}, fmt.Errorf("expression %s is not boolean", exprString(x))
	}
	return tv.T, nil
}

func exprString(x ast.Expr) string {
	return types.ExprString(x)
}

func (e *EvalEnv) coerce(a, b Val) (TV, TV, error) {
	ua, aIsU := a.(UConst)
	ub, bIsU := b.(UConst)
	switch {
	case aIsU && bIsU:
		return TV{}, TV{}, fmt.Errorf("both untyped")
	case aIsU:
		tb, ok := b.(TV)
		if !ok {
			tb2, err := e.asTV(b)
			if err != nil {
				return TV{}, TV{}, err
			}
			tb = tb2
		}
		w, _, isInt := intInfo(tb.Typ)
		if !isInt {
			return TV{}, TV{}, fmt.Errorf("untyped constant combined with non-integer %s", tb.Typ)
		}
		return TV{T: BVConst(ua.V, w), Typ: tb.Typ}, tb, nil
	case bIsU:
		ta, ok := a.(TV)
		if !ok {
			ta2, err := e.asTV(a)
			if err != nil {
				return TV{}, TV{}, err
			}
			ta = ta2
		}
		w, _, isInt := intInfo(ta.Typ)
		if !isInt {
			return TV{}, TV{}, fmt.Errorf("untyped constant combined with non-integer %s", ta.Typ)
		}
		return ta, TV{T: BVConst(ub.V, w), Typ: ta.Typ}, nil
	}
	ta, err := e.asTV(a)
	if err != nil {
		return TV{}, TV{}, err
	}
	tb, err := e.asTV(b)
	if err != nil {
		return TV{}, TV{}, err
	}
	return ta, tb, nil
}

func (e *EvalEnv) asTV(v Val) (TV, error) {
	switch v := v.(type) {
	case TV:
		return v, nil
	case PtrV:
		t, err := e.X.PtrTerm(v)
		if err != nil {
			return TV{}, err
		}
		return TV{T: t, Typ: v.Typ}, nil
	case UConst:
		return TV{T: BVConst(v.V, 64), Typ: types.Typ[types.Int]}, nil
	case FuncV:
		t, err := e.X.toTerm(v)
		if err != nil {
			return TV{}, err
		}
		return TV{T: t, Typ: v.Fn.Signature}, nil
	}
	return TV{}, fmt.Errorf("value %T is not a term", v)
}

func (e *EvalEnv) Eval(x ast.Expr) (Val, error) {
	switch x := x.(type) {
	case *ast.ParenExpr:
		return e.Eval(x.X)
	case *ast.BasicLit:
		switch x.Kind {
		case token.INT:
			v, ok := new(big.Int).SetString(strings.ReplaceAll(x.Value, "_", ""), 0)
			if !ok {
				return nil, fmt.Errorf("bad int literal %s", x.Value)
			}
			return UConst{V: v}, nil
		case token.CHAR:
			r, _, _, err := strconv.UnquoteChar(x.Value[1:len(x.Value)-1], '\'')
			if err != nil {
				return nil, err
			}
			return UConst{V: big.NewInt(int64(r))}, nil
		}
		return nil, fmt.Errorf("unsupported literal %s", x.Value)
	case *ast.Ident:
		return e.ident(x.Name)
	case *ast.UnaryExpr:
		v, err := e.Eval(x.X)
		if err != nil {
			return nil, err
		}
		if u, ok := v.(UConst); ok {
			switch x.Op {
			case token.SUB:
				return UConst{V: new(big.Int).Neg(u.V)}, nil
			case token.ADD:
				return u, nil
			}
			return nil, fmt.Errorf("unary %s on untyped constant", x.Op)
		}
		tv, err := e.asTV(v)
		if err != nil {
			return nil, err
		}
		switch x.Op {
		case token.NOT:
			return TV{T: Not(tv.T), Typ: tv.Typ}, nil
		case token.SUB:
			return TV{T: bvBin("bvsub", BVInt(0, tv.T.Sort.BVWidth()), tv.T), Typ: tv.Typ}, nil
		case token.XOR:
			return TV{T: App(tv.T.Sort, "bvnot", tv.T), Typ: tv.Typ}, nil
		}
		return nil, fmt.Errorf("unsupported unary %s", x.Op)
	case *ast.BinaryExpr:
		return e.binary(x)
	case *ast.CallExpr:
		return e.call(x)
	case *ast.SelectorExpr:
		return e.selector(x)
	case *ast.IndexExpr:
		return e.indexExpr(x)
	case *ast.StarExpr:
		v, err := e.Eval(x.X)
		if err != nil {
			return nil, err
		}
		p, ok := v.(PtrV)
		if !ok {
			return nil, fmt.Errorf("deref of non-pointer")
		}
		return e.X.Load(e.state(), p)
	}
	return nil, fmt.Errorf("unsupported contract expression %s (%T)", exprString(x), x)
}

func (e *EvalEnv) ident(name string) (Val, error) {
	// local_<name>: the source-level local variable <name> even when the name is a contract keyword (result, ...)
	if strings.HasPrefix(name, "local_") && e.Fr != nil {
		if vals := e.Fr.Names["&"+name[6:]]; len(vals) > 0 {
			// address-taken local (or a parameter copied to the stack because its address is taken): current content
			if p, ok := e.Fr.Env[vals[len(vals)-1]].(PtrV); ok {
				return e.X.Load(e.state(), p)
			}
		}
		if v, ok := e.Vars[name[6:]]; ok {
			return v, nil // loop-header phi bound by the loop environment
		}
		if vals := e.Fr.Names[name[6:]]; len(vals) > 0 {
			for i := len(vals) - 1; i >= 0; i-- {
				if _, isPhi := vals[i].(*ssa.Phi); isPhi {
					if val, ok := e.Fr.Env[vals[i]]; ok {
						return val, nil
					}
				}
			}
			if val, ok := e.Fr.Env[vals[len(vals)-1]]; ok {
				return val, nil
			}
		}
		if vals := e.Fr.Names["&"+name[6:]]; len(vals) > 0 {
			// address-taken local (or a parameter copied to the stack because its address is taken): current content
			if p, ok := e.Fr.Env[vals[len(vals)-1]].(PtrV); ok {
				return e.X.Load(e.state(), p)
			}
		}
		return nil, fmt.Errorf("no local variable %s in scope", name[6:])
	}
	switch name {
	case "true":
		return TV{T: TTrue, Typ: types.Typ[types.Bool]}, nil
	case "false":
		return TV{T: TFalse, Typ: types.Typ[types.Bool]}, nil
	case "nil":
		return NilV{}, nil
	case "result":
		if len(e.Results) == 1 {
			return e.Results[0], nil
		}
		if len(e.Results) == 0 {
			return nil, fmt.Errorf("no result in this context")
		}
		return TupleV(e.Results), nil
	}
	if strings.HasPrefix(name, "result") {
		if i, err := strconv.Atoi(name[6:]); err == nil && i < len(e.Results) {
			return e.Results[i], nil
		}
	}
	if v, ok := e.Vars[name]; ok {
		return v, nil
	}
	for i, rn := range e.ResNames {
		if rn == name && i < len(e.Results) {
			return e.Results[i], nil
		}
	}
	// SSA register of the enclosing frame (used by synthesised invariants): __ssa_t5
	if e.Fr != nil && strings.HasPrefix(name, "__ssa_") {
		for v, val := range e.Fr.Env {
			if v.Name() == name[6:] && v.Parent() == e.Fr.Fn {
				return val, nil
			}
		}
		return nil, fmt.Errorf("no SSA register %s in %s", name[6:], e.Fr.Fn.Name())
	}
	// source-level local variable of the enclosing frame
	if e.Fr != nil {
		if vals := e.Fr.Names[name]; len(vals) > 0 {
			// prefer a header phi / unique value
			var uniq ssa.Value
			same := true
			for _, v := range vals {
				if uniq == nil {
					uniq = v
				} else if uniq != v {
					same = false
				}
			}
			if same {
				if val, ok := e.Fr.Env[uniq]; ok {
					return val, nil
				}
			}
			// several definitions merged by exactly one executed phi: the phi is the variable's current value
			if !same {
				var found ssa.Value
				n := 0
				for v := range e.Fr.Env {
					if ph, ok := v.(*ssa.Phi); ok && ph.Comment == name && ph.Parent() == e.Fr.Fn {
						found = v
						n++
					}
				}
				if n == 1 {
					return e.Fr.Env[found], nil
				}
			}
			// most recent value
			last := vals[len(vals)-1]
			if val, ok := e.Fr.Env[last]; ok {
				return val, nil
			}
		}
	}
	// address-taken local variable (lives in an Alloc): its current content
	if e.Fr != nil {
		if vals := e.Fr.Names["&"+name]; len(vals) > 0 {
			if p, ok := e.Fr.Env[vals[len(vals)-1]].(PtrV); ok {
				return e.X.Load(e.state(), p)
			}
		}
	}
	// a variable carried by exactly one already-executed phi (e.g. a named result updated only in an
	// enclosing loop, referred to from an inner loop's invariant)
	if e.Fr != nil {
		var found ssa.Value
		n := 0
		for v := range e.Fr.Env {
			if ph, ok := v.(*ssa.Phi); ok && ph.Comment == name && ph.Parent() == e.Fr.Fn {
				found = v
				n++
			}
		}
		if n == 1 {
			return e.Fr.Env[found], nil
		}
	}
	// package-level constant / variable
	if e.Fn != nil && e.Fn.Pkg != nil {
		if v, ok, err := e.pkgMember(e.Fn.Pkg, name); ok || err != nil {
			return v, err
		}
	}
	// 0-ary spec symbol
	if sig, ok := e.Sigs[name]; ok && len(sig.Args) == 0 {
		e.X.C.usedSpec = true
		return TV{T: Raw(sig.Res, name), Typ: typeForSort(sig.Res)}, nil
	}
	return nil, fmt.Errorf("unknown identifier %q in contract", name)
}

type NilV struct{}

func (e *EvalEnv) pkgMember(pkg *ssa.Package, name string) (Val, bool, error) {
	m := pkg.Members[name]
	switch m := m.(type) {
	case *ssa.NamedConst:
		v, err := e.X.constVal(m.Value)
		if err == nil {
			if b, ok := m.Type().Underlying().(*types.Basic); ok && b.Info()&types.IsUntyped != 0 && b.Info()&types.IsInteger != 0 {
				iv, _ := constant.Val(constant.ToInt(m.Value.Value)).(*big.Int)
				if iv == nil {
					i64, _ := constant.Int64Val(constant.ToInt(m.Value.Value))
					iv = big.NewInt(i64)
				}
				return UConst{V: iv}, true, nil
			}
		}
		return v, true, err
	case *ssa.Global:
		p := e.X.globalPtr(m)
		v, err := e.X.Load(e.state(), p)
		return v, true, err
	case *ssa.Function:
		return FuncV{Fn: m}, true, nil
	}
	return nil, false, nil
}

func (e *EvalEnv) binary(x *ast.BinaryExpr) (Val, error) {
	if x.Op == token.LAND || x.Op == token.LOR {
		a, err := e.Bool(x.X)
		if err != nil {
			return nil, err
		}
		b, err := e.Bool(x.Y)
		if err != nil {
			return nil, err
		}
		if x.Op == token.LAND {
			return TV{T: And(a, b), Typ: types.Typ[types.Bool]}, nil
		}
		return TV{T: Or(a, b), Typ: types.Typ[types.Bool]}, nil
	}
	a, err := e.Eval(x.X)
	if err != nil {
		return nil, err
	}
	b, err := e.Eval(x.Y)
	if err != nil {
		return nil, err
	}
	// nil comparisons
	if _, ok := a.(NilV); ok {
		a, b = b, a
	}
	if _, ok := b.(NilV); ok {
		var isnil Term
		switch av := a.(type) {
		case PtrV:
			isnil = Eq(av.Base, BVInt(0, 32))
		case TV:
			switch av.T.Sort {
			case SSlice:
				isnil = Eq(SlBase(av.T), BVInt(0, 32))
			case SIface:
				isnil = Eq(av.T, e.X.C.zeroOfSort(SIface, nil))
			case SRef:
				isnil = Eq(av.T, BVInt(0, 32))
			default:
				return nil, fmt.Errorf("nil comparison on %s", av.Typ)
			}
		default:
			return nil, fmt.Errorf("nil comparison on %T", a)
		}
		if x.Op == token.EQL {
			return TV{T: isnil, Typ: types.Typ[types.Bool]}, nil
		}
		return TV{T: Not(isnil), Typ: types.Typ[types.Bool]}, nil
	}
	ua, aU := a.(UConst)
	ub, bU := b.(UConst)
	if aU && bU {
		r := new(big.Int)
		switch x.Op {
		case token.ADD:
			r.Add(ua.V, ub.V)
		case token.SUB:
			r.Sub(ua.V, ub.V)
		case token.MUL:
			r.Mul(ua.V, ub.V)
		case token.QUO:
			r.Quo(ua.V, ub.V)
		case token.REM:
			r.Rem(ua.V, ub.V)
		case token.SHL:
			r.Lsh(ua.V, uint(ub.V.Uint64()))
		case token.SHR:
			r.Rsh(ua.V, uint(ub.V.Uint64()))
		case token.EQL, token.NEQ, token.LSS, token.LEQ, token.GTR, token.GEQ:
			c := ua.V.Cmp(ub.V)
			res := map[token.Token]bool{token.EQL: c == 0, token.NEQ: c != 0, token.LSS: c < 0, token.LEQ: c <= 0, token.GTR: c > 0, token.GEQ: c >= 0}[x.Op]
			return TV{T: BoolConst(res), Typ: types.Typ[types.Bool]}, nil
		default:
			return nil, fmt.Errorf("constant op %s", x.Op)
		}
		return UConst{V: r}, nil
	}
	// shifts: count is independent
	if x.Op == token.SHL || x.Op == token.SHR {
		ta, err := e.asTV(a)
		if err != nil {
			return nil, err
		}
		var tb TV
		if bU {
			w, _, _ := intInfo(ta.Typ)
			tb = TV{T: BVConst(ub.V, w), Typ: &WideInt{Bits: w}}
		} else {
			tb, err = e.asTV(b)
			if err != nil {
				return nil, err
			}
		}
		return e.arith(x.Op, ta, tb)
	}
	// pointers
	if pa, ok := a.(PtrV); ok {
		if pb, ok := b.(PtrV); ok {
			eq, err := e.X.ptrEq(pa, pb)
			if err != nil {
				return nil, err
			}
			if x.Op == token.NEQ {
				eq = Not(eq)
			}
			return TV{T: eq, Typ: types.Typ[types.Bool]}, nil
		}
	}
	// interface compared with a typed constant / integer value: box the value (same representation as MakeInterface)
	if x.Op == token.EQL || x.Op == token.NEQ {
		av, aok := a.(TV)
		bv, bok := b.(TV)
		if aok && bok && (av.T.Sort == SIface) != (bv.T.Sort == SIface) {
			if bv.T.Sort == SIface {
				av, bv = bv, av
			}
			if w := bv.T.Sort.BVWidth(); w > 0 && w <= 64 && bv.Typ != nil {
				boxed := App(SIface, "mk-iface", BVInt(int64(e.X.C.TypeID(bv.Typ)), 32), ZeroExt(bv.T, 64))
				eq := Eq(av.T, boxed)
				if x.Op == token.NEQ {
					eq = Not(eq)
				}
				return TV{T: eq, Typ: types.Typ[types.Bool]}, nil
			}
		}
	}
	ta, tb, err := e.coerce(a, b)
	if err != nil {
		return nil, fmt.Errorf("%s: %v", exprString(x), err)
	}
	return e.arith(x.Op, ta, tb)
}

func (e *EvalEnv) arith(op token.Token, a, b TV) (Val, error) {
	wa, sa, ia := intInfo(a.Typ)
	wb, _, ib := intInfo(b.Typ)
	boolT := types.Typ[types.Bool]
	if ia && ib {
		if op == token.SHL || op == token.SHR {
			cnt := Resize(b.T, wa, false)
			big := TFalse
			if wb > wa {
				big = bvCmp("bvuge", b.T, BVInt(int64(wa), wb))
			}
			var r Term
			switch {
			case op == token.SHL:
				r = Ite(big, BVInt(0, wa), bvBin("bvshl", a.T, cnt))
			case sa:
				r = Ite(big, bvBin("bvashr", a.T, BVInt(int64(wa-1), wa)), bvBin("bvashr", a.T, cnt))
			default:
				r = Ite(big, BVInt(0, wa), bvBin("bvlshr", a.T, cnt))
			}
			return TV{T: r, Typ: a.Typ}, nil
		}
		if wa != wb {
			return nil, fmt.Errorf("integer width mismatch in contract: %s (%d bits) vs %s (%d bits)", a.Typ, wa, b.Typ, wb)
		}
		p := "bvu"
		if sa {
			p = "bvs"
		}
		switch op {
		case token.ADD:
			return TV{T: bvBin("bvadd", a.T, b.T), Typ: a.Typ}, nil
		case token.SUB:
			return TV{T: bvBin("bvsub", a.T, b.T), Typ: a.Typ}, nil
		case token.MUL:
			return TV{T: bvBin("bvmul", a.T, b.T), Typ: a.Typ}, nil
		case token.QUO:
			if sa {
				return TV{T: bvBin("bvsdiv", a.T, b.T), Typ: a.Typ}, nil
			}
			return TV{T: bvBin("bvudiv", a.T, b.T), Typ: a.Typ}, nil
		case token.REM:
			if sa {
				return TV{T: bvBin("bvsrem", a.T, b.T), Typ: a.Typ}, nil
			}
			return TV{T: e.X.urem(a.T, b.T), Typ: a.Typ}, nil
		case token.AND:
			return TV{T: bvBin("bvand", a.T, b.T), Typ: a.Typ}, nil
		case token.OR:
			return TV{T: bvBin("bvor", a.T, b.T), Typ: a.Typ}, nil
		case token.XOR:
			return TV{T: bvBin("bvxor", a.T, b.T), Typ: a.Typ}, nil
		case token.AND_NOT:
			return TV{T: bvBin("bvand", a.T, App(b.T.Sort, "bvnot", b.T)), Typ: a.Typ}, nil
		case token.EQL:
			return TV{T: Eq(a.T, b.T), Typ: boolT}, nil
		case token.NEQ:
			return TV{T: Not(Eq(a.T, b.T)), Typ: boolT}, nil
		case token.LSS:
			return TV{T: bvCmp(p+"lt", a.T, b.T), Typ: boolT}, nil
		case token.LEQ:
			return TV{T: bvCmp(p+"le", a.T, b.T), Typ: boolT}, nil
		case token.GTR:
			return TV{T: bvCmp(p+"gt", a.T, b.T), Typ: boolT}, nil
		case token.GEQ:
			return TV{T: bvCmp(p+"ge", a.T, b.T), Typ: boolT}, nil
		}
		return nil, fmt.Errorf("integer op %s unsupported in contracts", op)
	}
	// non-integers: equality only
	if op == token.EQL || op == token.NEQ {
		var eq Term
		if a.T.Sort != b.T.Sort {
			return nil, fmt.Errorf("comparison of different sorts %s vs %s", a.T.Sort, b.T.Sort)
		}
		switch a.Typ.Underlying().(type) {
		case *types.Array, *types.Struct:
			var err error
			eq, err = e.X.deepEq(a.Typ, a.T, b.T)
			if err != nil {
				// in contracts, == on values containing slices means identical headers (same storage, offset, length)
				eq = Eq(a.T, b.T)
			}
		default:
			eq = Eq(a.T, b.T)
		}
		if op == token.NEQ {
			eq = Not(eq)
		}
		return TV{T: eq, Typ: boolT}, nil
	}
	return nil, fmt.Errorf("op %s on %s unsupported in contracts", op, a.Typ)
}

func (e *EvalEnv) selector(x *ast.SelectorExpr) (Val, error) {
	// pkg.Member or spec.name
	if id, ok := x.X.(*ast.Ident); ok {
		if id.Name == "spec" {
			sig, ok := e.Sigs[x.Sel.Name]
			if !ok {
				return nil, fmt.Errorf("unknown spec symbol %s", x.Sel.Name)
			}
			e.X.C.usedSpec = true
			return TV{T: Raw(sig.Res, sig.Name), Typ: typeForSort(sig.Res)}, nil
		}
		if _, isVar := e.Vars[id.Name]; !isVar && e.Fn != nil && e.Fn.Pkg != nil {
			// imported package?
			for _, imp := range e.Fn.Pkg.Pkg.Imports() {
				if imp.Name() == id.Name {
					sp := e.X.P.SSA.Package(imp)
					if sp != nil {
						if v, ok, err := e.pkgMember(sp, x.Sel.Name); ok || err != nil {
							return v, err
						}
					}
					return nil, fmt.Errorf("unknown member %s.%s", id.Name, x.Sel.Name)
				}
			}
		}
	}
	base, err := e.Eval(x.X)
	if err != nil {
		return nil, err
	}
	return e.fieldOf(base, x.Sel.Name)
}

func (e *EvalEnv) fieldOf(base Val, name string) (Val, error) {
	switch b := base.(type) {
	case PtrV:
		elem := b.Typ.Underlying().(*types.Pointer).Elem()
		st, ok := elem.Underlying().(*types.Struct)
		if !ok {
			return nil, fmt.Errorf("field %s of pointer to non-struct %s", name, elem)
		}
		for i := 0; i < st.NumFields(); i++ {
			if st.Field(i).Name() == name {
				np := b
				np.Path = append(append([]Step{}, b.Path...), Step{IsField: true, Field: i})
				np.Typ = types.NewPointer(st.Field(i).Type())
				return e.X.Load(e.state(), np)
			}
		}
		// embedded promotion (one level)
		for i := 0; i < st.NumFields(); i++ {
			if st.Field(i).Embedded() {
				np := b
				np.Path = append(append([]Step{}, b.Path...), Step{IsField: true, Field: i})
				np.Typ = types.NewPointer(st.Field(i).Type())
				inner, err := e.X.Load(e.state(), np)
				if err == nil {
					if v, err := e.fieldOf(inner, name); err == nil {
						return v, nil
					}
				}
			}
		}
		return nil, fmt.Errorf("no field %s in %s", name, elem)
	case TV:
		st, ok := b.Typ.Underlying().(*types.Struct)
		if !ok {
			return nil, fmt.Errorf("field %s of non-struct %s", name, b.Typ)
		}
		si := e.X.C.StructInfo(b.Typ)
		for i := 0; i < st.NumFields(); i++ {
			if st.Field(i).Name() == name {
				return e.X.fromTerm(App(si.FSorts[i], si.Fields[i], b.T), st.Field(i).Type()), nil
			}
		}
		for i := 0; i < st.NumFields(); i++ {
			if st.Field(i).Embedded() {
				inner := e.X.fromTerm(App(si.FSorts[i], si.Fields[i], b.T), st.Field(i).Type())
				if v, err := e.fieldOf(inner, name); err == nil {
					return v, nil
				}
			}
		}
		return nil, fmt.Errorf("no field %s in %s", name, b.Typ)
	}
	return nil, fmt.Errorf("field %s of %T", name, base)
}

func (e *EvalEnv) indexExpr(x *ast.IndexExpr) (Val, error) {
	base, err := e.Eval(x.X)
	if err != nil {
		return nil, err
	}
	iv, err := e.Eval(x.Index)
	if err != nil {
		return nil, err
	}
	idxOf := func() (Term, error) {
		if u, ok := iv.(UConst); ok {
			return BVConst(u.V, 64), nil
		}
		t, err := e.asTV(iv)
		if err != nil {
			return Term{}, err
		}
		_, sg, isInt := intInfo(t.Typ)
		if !isInt {
			return Term{}, fmt.Errorf("non-integer index")
		}
		return Resize(t.T, 64, sg), nil
	}
	switch b := base.(type) {
	case TV:
		switch u := b.Typ.Underlying().(type) {
		case *types.Array:
			idx, err := idxOf()
			if err != nil {
				return nil, err
			}
			return e.X.fromTerm(Select(b.T, idx), u.Elem()), nil
		case *types.Slice:
			idx, err := idxOf()
			if err != nil {
				return nil, err
			}
			r, hs := e.X.elemRegion(u.Elem())
			h := e.X.heapGet(e.state(), r, hs)
			return e.X.fromTerm(Select(Select(h, SlBase(b.T)), bvBin("bvadd", SlOff(b.T), idx)), u.Elem()), nil
		case *types.Map:
			var kt TV
			if uc, ok := iv.(UConst); ok {
				w, _, _ := isInteger(u.Key())
				kt = TV{T: BVConst(uc.V, w), Typ: u.Key()}
			} else {
				kt, err = e.asTV(iv)
				if err != nil {
					return nil, err
				}
			}
			val, _, err := e.X.mapGet(e.state(), b.Typ, b.T, kt.T)
			if err != nil {
				return nil, err
			}
			return e.X.fromTerm(val, u.Elem()), nil
		}
		if b.T.Sort.IsArray() {
			// spec-level array
			is, es := b.T.Sort.ArrayParts()
			var idx Term
			if uc, ok := iv.(UConst); ok {
				idx = BVConst(uc.V, is.BVWidth())
			} else {
				t, err := e.asTV(iv)
				if err != nil {
					return nil, err
				}
				idx = t.T
			}
			return TV{T: Select(b.T, idx), Typ: typeForSort(es)}, nil
		}
	case PtrV:
		// pointer to array
		if arr, ok := b.Typ.Underlying().(*types.Pointer).Elem().Underlying().(*types.Array); ok {
			idx, err := idxOf()
			if err != nil {
				return nil, err
			}
			np := b
			np.Path = append(append([]Step{}, b.Path...), Step{Index: idx})
			np.Typ = types.NewPointer(arr.Elem())
			return e.X.Load(e.state(), np)
		}
	}
	return nil, fmt.Errorf("cannot index %s", exprString(x.X))
}

var convWidths = map[string]struct {
	w int
	s bool
}{"uint8": {8, false}, "byte": {8, false}, "uint16": {16, false}, "uint32": {32, false}, "uint64": {64, false}, "uint": {64, false},
	"int8": {8, true}, "int16": {16, true}, "int32": {32, true}, "int64": {64, true}, "int": {64, true},
	"u128": {128, false}, "i128": {128, true}, "u72": {72, false}, "u256": {256, false}, "u65": {65, false}, "i65": {65, true}}

func (e *EvalEnv) call(x *ast.CallExpr) (Val, error) {
	if sel, ok := x.Fun.(*ast.SelectorExpr); ok {
		if id, ok := sel.X.(*ast.Ident); ok && id.Name == "spec" {
			return e.specCall(sel.Sel.Name, x.Args)
		}
		// conversion to imported named type: pkg.T(e)
		if id, ok := sel.X.(*ast.Ident); ok && e.Fn != nil && e.Fn.Pkg != nil {
			for _, imp := range e.Fn.Pkg.Pkg.Imports() {
				if imp.Name() == id.Name {
					if tn, ok := imp.Scope().Lookup(sel.Sel.Name).(*types.TypeName); ok && len(x.Args) == 1 {
						return e.convertTo(tn.Type(), x.Args[0])
					}
				}
			}
		}
	}
	if sel, ok := x.Fun.(*ast.SelectorExpr); ok {
		// pkg.F(args): a function of an imported package (by the import's local name)
		if id, ok := sel.X.(*ast.Ident); ok && e.Fn != nil && e.Fn.Pkg != nil {
			if _, isVar := e.Vars[id.Name]; !isVar {
				for _, imp := range e.Fn.Pkg.Pkg.Imports() {
					local := imp.Name()
					if f := e.X.P.FileImportName(e.Fn, imp); f != "" {
						local = f
					}
					if local == id.Name {
						if sp := e.X.P.SSA.Package(imp); sp != nil {
							if fn := sp.Func(sel.Sel.Name); fn != nil {
								if res, ok, err := e.callModel(fn, x.Args); ok || err != nil {
									return res, err
								}
								return e.callGo(fn, nil, x.Args)
							}
						}
					}
				}
			}
		}
		// method call on a value: the real (pure) Go method is executed symbolically
		if recv, err := e.Eval(sel.X); err == nil {
			var rt types.Type
			switch rv := recv.(type) {
			case TV:
				rt = rv.Typ
			case PtrV:
				rt = rv.Typ
			}
			if rt != nil {
				ms := e.X.P.SSA.MethodSets.MethodSet(rt)
				for i := 0; i < ms.Len(); i++ {
					if ms.At(i).Obj().Name() == sel.Sel.Name {
						if fn := e.X.P.SSA.MethodValue(ms.At(i)); fn != nil {
							return e.callGo(fn, append([]Val{recv}, nil...), x.Args)
						}
					}
				}
			}
		}
	}
	id, ok := x.Fun.(*ast.Ident)
	if !ok {
		return nil, fmt.Errorf("unsupported call %s", exprString(x))
	}
	if e.Fn != nil && e.Fn.Pkg != nil {
		if _, isVar := e.Vars[id.Name]; !isVar {
			if fn := e.Fn.Pkg.Func(id.Name); fn != nil {
				if rel := strings.TrimPrefix(pkgPathOf(e.Fn), modPath+"/"); e.X.DB == nil || e.X.DB.Preds[rel+"."+id.Name] == nil {
					return e.callGo(fn, nil, x.Args)
				}
			}
		}
	}
	switch id.Name {
	case "old":
		if len(x.Args) != 1 {
			return nil, fmt.Errorf("old takes one argument")
		}
		prev := e.InOld
		e.InOld = true
		v, err := e.Eval(x.Args[0])
		e.InOld = prev
		return v, err
	case "implies":
		a, err := e.Bool(x.Args[0])
		if err != nil {
			return nil, err
		}
		b, err := e.Bool(x.Args[1])
		if err != nil {
			return nil, err
		}
		return TV{T: Implies(a, b), Typ: types.Typ[types.Bool]}, nil
	case "ite":
		c, err := e.Bool(x.Args[0])
		if err != nil {
			return nil, err
		}
		a, err := e.Eval(x.Args[1])
		if err != nil {
			return nil, err
		}
		b, err := e.Eval(x.Args[2])
		if err != nil {
			return nil, err
		}
		ta, tb, err := e.coerce(a, b)
		if err != nil {
			return nil, err
		}
		return TV{T: Ite(c, ta.T, tb.T), Typ: ta.Typ}, nil
	case "len", "cap":
		v, err := e.Eval(x.Args[0])
		if err != nil {
			return nil, err
		}
		switch b := v.(type) {
		case TV:
			switch u := b.Typ.Underlying().(type) {
			case *types.Slice:
				if id.Name == "len" {
					return TV{T: SlLen(b.T), Typ: types.Typ[types.Int]}, nil
				}
				return TV{T: SlCap(b.T), Typ: types.Typ[types.Int]}, nil
			case *types.Array:
				return TV{T: BVInt(u.Len(), 64), Typ: types.Typ[types.Int]}, nil
			case *types.Map:
				ln, err := e.X.mapLen(e.state(), b.Typ, b.T)
				return TV{T: ln, Typ: types.Typ[types.Int]}, err
			case *types.Basic:
				return TV{T: App(SIdx, "str_len", b.T), Typ: types.Typ[types.Int]}, nil
			}
		}
		return nil, fmt.Errorf("len of %T", v)
	case "has":
		// has(m, k): key present in map
		mv, err := e.Eval(x.Args[0])
		if err != nil {
			return nil, err
		}
		m, err := e.asTV(mv)
		if err != nil {
			return nil, err
		}
		mt := m.Typ.Underlying().(*types.Map)
		kv, err := e.Eval(x.Args[1])
		if err != nil {
			return nil, err
		}
		var kt TV
		if uc, ok := kv.(UConst); ok {
			w, _, _ := isInteger(mt.Key())
			kt = TV{T: BVConst(uc.V, w), Typ: mt.Key()}
		} else {
			kt, err = e.asTV(kv)
			if err != nil {
				return nil, err
			}
		}
		_, present, err := e.X.mapGet(e.state(), m.Typ, m.T, kt.T)
		return TV{T: present, Typ: types.Typ[types.Bool]}, err
	case "forall", "exists":
		// forall(i, lo, hi, body): lo <= i < hi, i is a 64-bit int
		if len(x.Args) != 4 {
			return nil, fmt.Errorf("%s(i, lo, hi, body)", id.Name)
		}
		vid, ok := x.Args[0].(*ast.Ident)
		if !ok {
			return nil, fmt.Errorf("bound variable must be an identifier")
		}
		lo, err := e.intArg(x.Args[1], 64)
		if err != nil {
			return nil, err
		}
		hi, err := e.intArg(x.Args[2], 64)
		if err != nil {
			return nil, err
		}
		// small constant ranges are expanded
		if cl, ok := lo.Const(); ok {
			if ch, ok := hi.Const(); ok && ch.IsInt64() && cl.IsInt64() && ch.Int64()-cl.Int64() <= 64 {
				var parts []Term
				saved, had := e.Vars[vid.Name]
				for k := cl.Int64(); k < ch.Int64(); k++ {
					e.Vars[vid.Name] = TV{T: BVInt(k, 64), Typ: types.Typ[types.Int]}
					b, err := e.Bool(x.Args[3])
					if err != nil {
						return nil, err
					}
					parts = append(parts, b)
				}
				if had {
					e.Vars[vid.Name] = saved
				} else {
					delete(e.Vars, vid.Name)
				}
				if id.Name == "forall" {
					return TV{T: And(parts...), Typ: types.Typ[types.Bool]}, nil
				}
				return TV{T: Or(parts...), Typ: types.Typ[types.Bool]}, nil
			}
		}
		e.X.C.nameCtr++
		bn := fmt.Sprintf("%s!q%d", sanitize(vid.Name), e.X.C.nameCtr)
		saved, had := e.Vars[vid.Name]
		e.Vars[vid.Name] = TV{T: Raw(SIdx, bn), Typ: types.Typ[types.Int]}
		// the body must be evaluated without creating named definitions that mention the bound variable
		e.X.C.noName++
		body, err := e.Bool(x.Args[3])
		e.X.C.noName--
		if had {
			e.Vars[vid.Name] = saved
		} else {
			delete(e.Vars, vid.Name)
		}
		if err != nil {
			return nil, err
		}
		rng := And(bvCmp("bvsle", lo, Raw(SIdx, bn)), bvCmp("bvslt", Raw(SIdx, bn), hi))
		var q string
		if id.Name == "forall" {
			q = fmt.Sprintf("(forall ((%s (_ BitVec 64))) (=> %s %s))", bn, rng.S, body.S)
		} else {
			q = fmt.Sprintf("(exists ((%s (_ BitVec 64))) (and %s %s))", bn, rng.S, body.S)
		}
		e.X.C.usesQuant = true
		return TV{T: Raw(SBool, q), Typ: types.Typ[types.Bool]}, nil
	case "allkeys":
		// allkeys(k, m, body): body holds for every key k present in map m (k may be used as m[k], has(m2, k), ...)
		if len(x.Args) != 3 {
			return nil, fmt.Errorf("allkeys(k, m, body)")
		}
		vid, ok := x.Args[0].(*ast.Ident)
		if !ok {
			return nil, fmt.Errorf("allkeys(k, m, body): identifier expected")
		}
		mv, err := e.Eval(x.Args[1])
		if err != nil {
			return nil, err
		}
		m, err := e.asTV(mv)
		if err != nil {
			return nil, err
		}
		mt, ok := m.Typ.Underlying().(*types.Map)
		if !ok {
			return nil, fmt.Errorf("allkeys over %s", m.Typ)
		}
		mr, err := e.X.mapRegions(m.Typ)
		if err != nil {
			return nil, err
		}
		e.X.C.nameCtr++
		bn := fmt.Sprintf("%s!k%d", sanitize(vid.Name), e.X.C.nameCtr)
		saved, had := e.Vars[vid.Name]
		e.Vars[vid.Name] = TV{T: Raw(mr.KS, bn), Typ: mt.Key()}
		e.X.C.noName++
		_, present, err1 := e.X.mapGet(e.state(), m.Typ, m.T, Raw(mr.KS, bn))
		var body Term
		var err2 error
		if err1 == nil {
			body, err2 = e.Bool(x.Args[2])
		}
		e.X.C.noName--
		if had {
			e.Vars[vid.Name] = saved
		} else {
			delete(e.Vars, vid.Name)
		}
		if err1 != nil {
			return nil, err1
		}
		if err2 != nil {
			return nil, err2
		}
		e.X.C.usesQuant = true
		return TV{T: Raw(SBool, fmt.Sprintf("(forall ((%s %s)) (=> %s %s))", bn, mr.KS, present.S, body.S)), Typ: types.Typ[types.Bool]}, nil
	case "all", "any":
		// all(x, uint64, body): universally quantified ghost integer of the given width
		if len(x.Args) != 3 {
			return nil, fmt.Errorf("%s(x, type, body)", id.Name)
		}
		vid, ok := x.Args[0].(*ast.Ident)
		tid, ok2 := x.Args[1].(*ast.Ident)
		if !ok || !ok2 {
			return nil, fmt.Errorf("%s(x, type, body): identifiers expected", id.Name)
		}
		cw, ok := convWidths[tid.Name]
		if !ok {
			return nil, fmt.Errorf("unknown integer type %s", tid.Name)
		}
		var typ types.Type
		if obj := types.Universe.Lookup(tid.Name); obj != nil {
			typ = obj.Type()
		} else {
			typ = &WideInt{Bits: cw.w, Signed: cw.s}
		}
		e.X.C.nameCtr++
		bn := fmt.Sprintf("%s!g%d", sanitize(vid.Name), e.X.C.nameCtr)
		saved, had := e.Vars[vid.Name]
		e.Vars[vid.Name] = TV{T: Raw(SBV(cw.w), bn), Typ: typ}
		e.X.C.noName++
		body, err := e.Bool(x.Args[2])
		e.X.C.noName--
		if had {
			e.Vars[vid.Name] = saved
		} else {
			delete(e.Vars, vid.Name)
		}
		if err != nil {
			return nil, err
		}
		q := "forall"
		if id.Name == "any" {
			q = "exists"
		}
		e.X.C.usesQuant = true
		return TV{T: Raw(SBool, fmt.Sprintf("(%s ((%s (_ BitVec %d))) %s)", q, bn, cw.w, body.S)), Typ: types.Typ[types.Bool]}, nil
	case "disjoint":
		// disjoint(s, t): the two slices do not share storage
		if len(x.Args) != 2 {
			return nil, fmt.Errorf("disjoint(s, t)")
		}
		av, err := e.Eval(x.Args[0])
		if err != nil {
			return nil, err
		}
		bv, err := e.Eval(x.Args[1])
		if err != nil {
			return nil, err
		}
		at, ok1 := av.(TV)
		bt, ok2 := bv.(TV)
		if !ok1 || !ok2 || at.T.Sort != SSlice || bt.T.Sort != SSlice {
			return nil, fmt.Errorf("disjoint needs two slices")
		}
		d := Or(Not(Eq(SlBase(at.T), SlBase(bt.T))),
			bvCmp("bvule", bvBin("bvadd", SlOff(at.T), SlCap(at.T)), SlOff(bt.T)),
			bvCmp("bvule", bvBin("bvadd", SlOff(bt.T), SlCap(bt.T)), SlOff(at.T)))
		return TV{T: d, Typ: types.Typ[types.Bool]}, nil
	case "nth":
		// nth(t, k): k-th component of a tuple (results of a multi-valued Go function called in a contract)
		if len(x.Args) != 2 {
			return nil, fmt.Errorf("nth(tuple, k)")
		}
		tv, err := e.Eval(x.Args[0])
		if err != nil {
			return nil, err
		}
		tup, ok := tv.(TupleV)
		lit, ok2 := x.Args[1].(*ast.BasicLit)
		if !ok || !ok2 {
			return nil, fmt.Errorf("nth needs a tuple and a literal index")
		}
		k, err := strconv.Atoi(lit.Value)
		if err != nil || k < 0 || k >= len(tup) {
			return nil, fmt.Errorf("nth: index out of range")
		}
		return tup[k], nil
	case "samestart":
		// samestart(s, t): the two slices start at the same element of the same backing array and have the same capacity
		if len(x.Args) != 2 {
			return nil, fmt.Errorf("samestart(s, t)")
		}
		av, err := e.Eval(x.Args[0])
		if err != nil {
			return nil, err
		}
		bv, err := e.Eval(x.Args[1])
		if err != nil {
			return nil, err
		}
		at, ok1 := av.(TV)
		bt, ok2 := bv.(TV)
		if !ok1 || !ok2 || at.T.Sort != SSlice || bt.T.Sort != SSlice {
			return nil, fmt.Errorf("samestart needs two slices")
		}
		return TV{T: And(Eq(SlBase(at.T), SlBase(bt.T)), Eq(SlOff(at.T), SlOff(bt.T)), Eq(SlCap(at.T), SlCap(bt.T))), Typ: types.Typ[types.Bool]}, nil
	case "sameblock":
		// sameblock(s, t): the two slices share their backing array
		if len(x.Args) != 2 {
			return nil, fmt.Errorf("sameblock(s, t)")
		}
		av, err := e.Eval(x.Args[0])
		if err != nil {
			return nil, err
		}
		bv, err := e.Eval(x.Args[1])
		if err != nil {
			return nil, err
		}
		at, ok1 := av.(TV)
		bt, ok2 := bv.(TV)
		if !ok1 || !ok2 || at.T.Sort != SSlice || bt.T.Sort != SSlice {
			return nil, fmt.Errorf("sameblock needs two slices")
		}
		return TV{T: Eq(SlBase(at.T), SlBase(bt.T)), Typ: types.Typ[types.Bool]}, nil
	case "frame_only":
		// frame_only(loc1, loc2, ...): every heap location that existed before the call, other than the listed
		// ones, holds its old value (whole-heap frame condition; the listed locations are evaluated in the pre-state)
		if e.Old == nil {
			return nil, fmt.Errorf("frame_only needs a pre-state")
		}
		expected := e.Old.Clone()
		for _, a := range x.Args {
			if ce, ok := a.(*ast.CallExpr); ok {
				if fid, ok := ce.Fun.(*ast.Ident); ok && fid.Name == "anybytes" && len(ce.Args) == 0 {
					// anybytes(): any octet of any byte array may change (everything else must not)
					r, hs := e.X.elemRegion(types.Typ[types.Uint8])
					e.X.heapSet(expected, r, e.X.heapGet(e.St, r, hs))
					continue
				}
				if fid, ok := ce.Fun.(*ast.Ident); ok && fid.Name == "elems" && len(ce.Args) == 1 {
					// elems(s): every element of the backing array of slice s (evaluated in the pre-state) may change
					prev := e.InOld
					e.InOld = true
					sv, err := e.Eval(ce.Args[0])
					e.InOld = prev
					if err != nil {
						return nil, err
					}
					stv, ok := sv.(TV)
					if !ok || stv.T.Sort != SSlice {
						return nil, fmt.Errorf("elems() needs a slice")
					}
					elem := stv.Typ.Underlying().(*types.Slice).Elem()
					r, hs := e.X.elemRegion(elem)
					hNew := e.X.heapGet(e.St, r, hs)
					hExp := e.X.heapGet(expected, r, hs)
					// (a nil slice has no backing array: nothing may change)
					e.X.heapSet(expected, r, Ite(Eq(SlBase(stv.T), BVInt(0, 32)), hExp, Store(hExp, SlBase(stv.T), Select(hNew, SlBase(stv.T)))))
					continue
				}
			}
			prev := e.InOld
			e.InOld = true
			lv, err := evalLValueAST(e, a)
			e.InOld = prev
			if err != nil {
				return nil, fmt.Errorf("frame_only(%s): %v", exprString(a), err)
			}
			nv, err := e.X.Load(e.St, lv)
			if err != nil {
				return nil, err
			}
			if err := e.X.Store(expected, lv, nv); err != nil {
				return nil, err
			}
		}
		// every heap region the execution ever mentions (a second pass is run when regions were first mentioned
		// after a frame condition had already been evaluated, so that assumed and checked frames range over the same set)
		regions := map[string]bool{}
		for r := range e.X.regionSort {
			if strings.HasPrefix(r, "G:") {
				continue // ghost state (call counter) is not memory: frames do not speak about it
			}
			regions[r] = true
		}
		if e.X.frameEvals == 0 || len(e.X.regionSort) < e.X.minRegionsAtFrame {
			e.X.minRegionsAtFrame = len(e.X.regionSort)
		}
		e.X.frameEvals++
		var names []string
		for r := range regions {
			names = append(names, r)
		}
		sort.Strings(names)
		var conj []Term
		var conjRegions []string
		allocated := e.St.Brk.S != e.Old.Brk.S
		for _, r := range names {
			srt := e.X.regionSort[r]
			cur := e.X.heapGet(e.St, r, srt)
			exp := e.X.heapGet(expected, r, srt)
			if cur.S == exp.S {
				continue
			}
			conjRegions = append(conjRegions, r)
			if !allocated {
				conj = append(conj, Eq(cur, exp))
				continue
			}
			e.X.C.usesQuant = true
			conj = append(conj, Raw(SBool, fmt.Sprintf("(forall ((r!f (_ BitVec 32))) (=> (bvult r!f %s) (= (select %s r!f) (select %s r!f))))", e.Old.Brk.S, cur.S, exp.S)))
		}
		e.LastFrame, e.LastFrameRegions = conj, conjRegions
		return TV{T: And(conj...), Typ: types.Typ[types.Bool]}, nil
	case "isbytes", "asbytes", "iserror":
		// dynamic type tests on an interface value: isbytes(x) <=> x holds a []byte; asbytes(x) is that slice;
		// iserror(x) <=> x is non-nil and its dynamic type implements error
		v, err := e.Eval(x.Args[0])
		if err != nil {
			return nil, err
		}
		iv, ok := v.(TV)
		if !ok || iv.T.Sort != SIface {
			return nil, fmt.Errorf("%s() needs an interface value", id.Name)
		}
		bt := types.NewSlice(types.Typ[types.Uint8])
		switch id.Name {
		case "isbytes":
			return TV{T: Eq(App(SRef, "if-typ", iv.T), BVInt(int64(e.X.C.TypeID(bt)), 32)), Typ: types.Typ[types.Bool]}, nil
		case "iserror":
			et := types.Universe.Lookup("error").Type()
			return TV{T: And(Not(Eq(App(SRef, "if-typ", iv.T), BVInt(0, 32))), e.X.C.Implements(App(SRef, "if-typ", iv.T), et)), Typ: types.Typ[types.Bool]}, nil
		}
		return e.X.unboxIface(e.state(), iv.T, bt)
	case "dyncalls":
		// dyncalls(): ghost counter of calls made through function values (needs `opt countcalls` and `opt purecalls`)
		h := e.X.heapGet(e.state(), dynCallsRegion, SArr(SRef, SIdx))
		return TV{T: Select(h, BVInt(0, 32)), Typ: types.Typ[types.Int]}, nil
	case "allocated":
		// allocated(s): the slice/pointer/map refers to an object that already exists in the current state
		// (so a later allocation cannot alias it)
		v, err := e.Eval(x.Args[0])
		if err != nil {
			return nil, err
		}
		var base Term
		switch b := v.(type) {
		case PtrV:
			base = b.Base
		case TV:
			if b.T.Sort == SSlice {
				base = SlBase(b.T)
			} else {
				base = b.T
			}
		}
		return TV{T: bvCmp("bvult", base, e.state().Brk), Typ: types.Typ[types.Bool]}, nil
	case "fresh":
		// fresh(s): slice/pointer/map allocated during the call
		v, err := e.Eval(x.Args[0])
		if err != nil {
			return nil, err
		}
		if e.Old == nil {
			return nil, fmt.Errorf("fresh() needs a pre-state")
		}
		var base Term
		switch b := v.(type) {
		case PtrV:
			base = b.Base
		case TV:
			if b.T.Sort == SSlice {
				base = SlBase(b.T)
			} else {
				base = b.T
			}
		}
		return TV{T: bvCmp("bvuge", base, e.Old.Brk), Typ: types.Typ[types.Bool]}, nil
	}
	if cw, ok := convWidths[id.Name]; ok && len(x.Args) == 1 {
		v, err := e.Eval(x.Args[0])
		if err != nil {
			return nil, err
		}
		var typ types.Type
		if obj := types.Universe.Lookup(id.Name); obj != nil {
			typ = obj.Type()
		} else {
			typ = &WideInt{Bits: cw.w, Signed: cw.s}
		}
		if u, ok := v.(UConst); ok {
			return TV{T: BVConst(u.V, cw.w), Typ: typ}, nil
		}
		tv, err := e.asTV(v)
		if err != nil {
			return nil, err
		}
		if tv.T.Sort == SBool {
			return TV{T: Ite(tv.T, BVInt(1, cw.w), BVInt(0, cw.w)), Typ: typ}, nil
		}
		_, sg, isInt := intInfo(tv.Typ)
		if !isInt {
			return nil, fmt.Errorf("conversion of non-integer %s", tv.Typ)
		}
		return TV{T: Resize(tv.T, cw.w, sg), Typ: typ}, nil
	}
	// package-level contract predicate (macro)
	if e.Fn != nil && e.X.DB != nil {
		rel := strings.TrimPrefix(pkgPathOf(e.Fn), modPath+"/")
		if pd := e.X.DB.Preds[rel+"."+id.Name]; pd != nil {
			if len(x.Args) != len(pd.Params) {
				return nil, fmt.Errorf("pred %s expects %d arguments", pd.Name, len(pd.Params))
			}
			saved := map[string]Val{}
			had := map[string]bool{}
			var vals []Val
			for _, a := range x.Args {
				v, err := e.Eval(a)
				if err != nil {
					return nil, err
				}
				vals = append(vals, v)
			}
			for i, pn := range pd.Params {
				saved[pn], had[pn] = e.Vars[pn], false
				if _, ok := e.Vars[pn]; ok {
					had[pn] = true
				}
				e.Vars[pn] = vals[i]
			}
			r, err := e.Eval(pd.Body.Expr)
			for _, pn := range pd.Params {
				if had[pn] {
					e.Vars[pn] = saved[pn]
				} else {
					delete(e.Vars, pn)
				}
			}
			if err != nil {
				return nil, fmt.Errorf("in pred %s: %v", pd.Name, err)
			}
			return r, nil
		}
	}
	// conversion to a named type of the function's package
	if e.Fn != nil && e.Fn.Pkg != nil && len(x.Args) == 1 {
		if tn, ok := e.Fn.Pkg.Pkg.Scope().Lookup(id.Name).(*types.TypeName); ok {
			return e.convertTo(tn.Type(), x.Args[0])
		}
	}
	return nil, fmt.Errorf("unknown function %s in contract", id.Name)
}

// callGo evaluates a call to a real Go function inside a contract: the function is executed symbolically on a copy of
// the state (its effects are discarded, its run-time checks generate no obligations): it must be pure.
func (e *EvalEnv) callGo(fn *ssa.Function, pre []Val, argExprs []ast.Expr) (Val, error) {
	args := append([]Val{}, pre...)
	params := fn.Signature.Params()
	for i, a := range argExprs {
		v, err := e.Eval(a)
		if err != nil {
			return nil, err
		}
		if u, ok := v.(UConst); ok {
			pi := i
			if pi >= params.Len() {
				return nil, fmt.Errorf("too many arguments to %s", fn.Name())
			}
			pt := params.At(pi).Type()
			w, _, isInt := isInteger(pt)
			if !isInt {
				return nil, fmt.Errorf("constant argument for non-integer parameter of %s", fn.Name())
			}
			v = TV{T: BVConst(u.V, w), Typ: pt}
		}
		args = append(args, v)
	}
	if len(args) != len(fn.Params) {
		return nil, fmt.Errorf("%s expects %d arguments", fn.Name(), len(fn.Params))
	}
	st := e.state().Clone()
	saved := e.X.Opts.NoPanicObl
	savedStack := e.X.stack
	e.X.stack = nil // a contract may mention the function under verification itself (relational clauses)
	e.X.Opts.NoPanicObl = true
	res, err := e.X.CallFunction(fn, args, st, "spec>", 1)
	e.X.Opts.NoPanicObl = saved
	e.X.stack = savedStack
	if err != nil {
		return nil, fmt.Errorf("calling %s in a contract: %v", fn.Name(), err)
	}
	switch len(res) {
	case 0:
		return nil, fmt.Errorf("%s returns nothing", fn.Name())
	case 1:
		return res[0], nil
	}
	return TupleV(res), nil
}

func (e *EvalEnv) convertTo(t types.Type, arg ast.Expr) (Val, error) {
	v, err := e.Eval(arg)
	if err != nil {
		return nil, err
	}
	w, _, isInt := isInteger(t)
	if !isInt {
		tv, err := e.asTV(v)
		if err != nil {
			return nil, err
		}
		return TV{T: tv.T, Typ: t}, nil
	}
	if u, ok := v.(UConst); ok {
		return TV{T: BVConst(u.V, w), Typ: t}, nil
	}
	tv, err := e.asTV(v)
	if err != nil {
		return nil, err
	}
	_, sg, _ := intInfo(tv.Typ)
	return TV{T: Resize(tv.T, w, sg), Typ: t}, nil
}

func (e *EvalEnv) intArg(x ast.Expr, w int) (Term, error) {
	v, err := e.Eval(x)
	if err != nil {
		return Term{}, err
	}
	if u, ok := v.(UConst); ok {
		return BVConst(u.V, w), nil
	}
	tv, err := e.asTV(v)
	if err != nil {
		return Term{}, err
	}
	_, sg, isInt := intInfo(tv.Typ)
	if !isInt {
		return Term{}, fmt.Errorf("expected integer")
	}
	return Resize(tv.T, w, sg), nil
}

func (e *EvalEnv) specCall(name string, args []ast.Expr) (Val, error) {
	sig, ok := e.Sigs[name]
	if !ok {
		return nil, fmt.Errorf("unknown spec function %s", name)
	}
	if len(args) != len(sig.Args) {
		return nil, fmt.Errorf("spec.%s expects %d arguments", name, len(sig.Args))
	}
	e.X.C.usedSpec = true
	var ts []Term
	for i, a := range args {
		v, err := e.Eval(a)
		if err != nil {
			return nil, err
		}
		want := sig.Args[i]
		var t Term
		if u, ok := v.(UConst); ok {
			if w := want.BVWidth(); w > 0 {
				t = BVConst(u.V, w)
			} else {
				return nil, fmt.Errorf("spec.%s arg %d: constant for sort %s", name, i, want)
			}
		} else {
			tv, err := e.asTV(v)
			if err != nil {
				return nil, err
			}
			t = tv.T
			if t.Sort != want {
				// integers are resized by their own signedness
				if ww := want.BVWidth(); ww > 0 && t.Sort.BVWidth() > 0 {
					_, sg, _ := intInfo(tv.Typ)
					t = Resize(t, ww, sg)
				} else {
					return nil, fmt.Errorf("spec.%s arg %d: sort %s, want %s", name, i, t.Sort, want)
				}
			}
		}
		ts = append(ts, t)
	}
	if len(ts) == 0 {
		return TV{T: Raw(sig.Res, name), Typ: typeForSort(sig.Res)}, nil
	}
	return TV{T: App(sig.Res, name, ts...), Typ: typeForSort(sig.Res)}, nil
}

// urem: unsigned remainder. Under `opt abstractmod` a remainder by a non-constant divisor is an uninterpreted
// function constrained by r < b (b != 0) and r <= a: every fact proved holds for the real operator, and the solver is
// spared bit-blasting a symbolic 32/64-bit division (a fact that needs more about % than these two axioms is lost).
func (x *Exec) urem(a, b Term) Term {
	if _, isConst := b.Const(); isConst || x.topContract == nil || x.topContract.Opts["abstractmod"] == "" {
		return bvBin("bvurem", a, b)
	}
	w := a.Sort.BVWidth()
	uf := fmt.Sprintf("uf_urem%d", w)
	x.C.DeclOnce(fmt.Sprintf("(declare-fun %s (%s %s) %s)", uf, a.Sort, a.Sort, a.Sort))
	t := App(a.Sort, uf, a, b)
	if x.uremSeen == nil {
		x.uremSeen = map[string]bool{}
	}
	if !x.uremSeen[t.S] {
		x.uremSeen[t.S] = true
		x.C.Assume(And(Implies(Not(Eq(b, BVInt(0, w))), bvCmp("bvult", t, b)), bvCmp("bvule", t, a)), "remainder axioms (abstractmod)")
		x.C.trusted["% by a symbolic divisor is abstracted to an uninterpreted function with r < b and r <= a (opt abstractmod)"] = true
	}
	return t
}

// callModel: a contract call to a function that has a model (hash functions, ...) is the model applied to the arguments.
func (e *EvalEnv) callModel(fn *ssa.Function, argExprs []ast.Expr) (Val, bool, error) {
	var args []Val
	for _, a := range argExprs {
		v, err := e.Eval(a)
		if err != nil {
			return nil, true, err
		}
		args = append(args, v)
	}
	st := e.state().Clone()
	res, ok, err := e.X.model(&Frame{Fn: fn, Env: map[ssa.Value]Val{}}, st, fn, args, nil)
	if !ok || err != nil {
		return nil, ok, err
	}
	if len(res) == 1 {
		return res[0], true, nil
	}
	return TupleV(res), true, nil
}
