package main

import (
	"fmt"
	"go/types"
	"sort"
	"strings"

	"golang.org/x/tools/go/ssa"
)

// Val is a symbolic Go value.
type Val interface{}

// TV: a value represented by one SMT term.
type TV struct {
	T   Term
	Typ types.Type
}

// Step in a pointer path.
type Step struct {
	IsField bool
	Field   int
	Index   Term // BV64, when !IsField
}

// PtrV: pointer into a heap region, possibly interior.
// Region "H:<type>" holds objects of a non-array type; region "E:<elemtype>" holds backing arrays.
type PtrV struct {
	Region string
	RootT  types.Type // type of the object stored in the region at Base (for E: the element type)
	Base   Term       // Ref
	Path   []Step
	Typ    types.Type // pointer type
	Snap   bool       // points into a read-only snapshot
	NonNil bool       // known non-nil (fresh allocation, global)
}

type TupleV []Val

type FuncV struct {
	Fn       *ssa.Function
	Bindings []Val
}

type BuiltinV struct{ Name string }

// MapIterV: state of a range over a map (only bounded/havoc use)
type IterV struct {
	Map   Val
	KeyT  types.Type
	ValT  types.Type
	IsStr bool
	Seen  Term // Array K Bool of keys already yielded
}

// State: path condition + heap.
type State struct {
	PC    Term
	Heap  map[string]Term // region -> term (regions absent here have the default of Epoch)
	Brk   Term
	Epoch int // 0 = initial heap; other epochs come from havoc / merges
}

func (s *State) Clone() *State {
	h := make(map[string]Term, len(s.Heap))
	for k, v := range s.Heap {
		h[k] = v
	}
	return &State{PC: s.PC, Heap: h, Brk: s.Brk, Epoch: s.Epoch}
}

func regionSortKey(r string) string { return r }

// regionFor returns the region name and the sort of its array for objects of type t pointed to by a pointer.
func (x *Exec) regionForElem(t types.Type) (string, Sort) {
	c := x.C
	if a, ok := t.Underlying().(*types.Array); ok {
		es := c.SortOf(a.Elem())
		x.noteRegionType("E:"+string(es), a.Elem())
		return "E:" + string(es), SArr(SRef, SArr(SIdx, es))
	}
	s := c.SortOf(t)
	x.noteRegionType("H:"+string(s), t)
	return "H:" + string(s), SArr(SRef, s)
}

func (x *Exec) elemRegion(elem types.Type) (string, Sort) {
	es := x.C.SortOf(elem)
	x.noteRegionType("E:"+string(es), elem)
	return "E:" + string(es), SArr(SRef, SArr(SIdx, es))
}

// noteRegionType remembers the Go type behind a heap region, so that a second pass (see VerifyFunction) can declare the
// sorts of the regions it knows from the first pass before anything refers to them.
func (x *Exec) noteRegionType(region string, t types.Type) {
	if x.regionTypes == nil {
		x.regionTypes = map[string]types.Type{}
	}
	x.regionTypes[region] = t
}

// heapGet returns the current term of a region; regions never touched in this state have the default of its epoch.
func (x *Exec) heapGet(st *State, region string, srt Sort) Term {
	if t, ok := st.Heap[region]; ok {
		return t
	}
	x.regionSort[region] = srt
	t := x.heapDefault(st.Epoch, region, srt)
	st.Heap[region] = t
	return t
}

type epochInfo struct {
	parts []epochPart // merge epoch: ite over parts; empty => fresh constants
}
type epochPart struct {
	pc    Term
	epoch int
	heap  map[string]Term
}

func (x *Exec) newEpoch(parts []epochPart) int {
	x.epochs = append(x.epochs, epochInfo{parts: parts})
	return len(x.epochs) - 1
}

func (x *Exec) heapDefault(epoch int, region string, srt Sort) Term {
	key := fmt.Sprintf("%d|%s", epoch, region)
	if t, ok := x.epochHeap[key]; ok {
		return t
	}
	var t Term
	info := x.epochs[epoch]
	if len(info.parts) == 0 {
		name := fmt.Sprintf("heap%d_%s", epoch, sanitize(region))
		x.C.decls = append(x.C.decls, fmt.Sprintf("(declare-const %s %s)", name, srt))
		t = Raw(srt, name)
	} else {
		var cur Term
		for i := len(info.parts) - 1; i >= 0; i-- {
			p := info.parts[i]
			pt, ok := p.heap[region]
			if !ok {
				pt = x.heapDefault(p.epoch, region, srt)
			}
			if i == len(info.parts)-1 {
				cur = pt
			} else {
				cur = Ite(p.pc, pt, cur)
			}
		}
		t = x.C.Name("hd_"+region, cur)
	}
	x.epochHeap[key] = t
	return t
}

// noteWrite records a store through reference ref for the syntactic part of the frame check.
func (x *Exec) noteWrite(ref Term, regions ...string) {
	if !x.C.AllocatedHere(ref.S) {
		x.oldWrites++
		if x.dirty == nil {
			x.dirty = map[string]bool{}
		}
		if len(regions) == 0 {
			x.dirtyAll = true
		}
		for _, r := range regions {
			x.dirty[r] = true
		}
	}
}

// regionClean: no store of the execution can have changed an object of this region that existed at entry.
func (x *Exec) regionClean(region string) bool {
	return !x.dirtyAll && !x.dirty[region]
}

func (x *Exec) heapSet(st *State, region string, t Term) {
	named := x.C.Name("h_"+region, t)
	if strings.HasPrefix(t.S, "(store ") && named.S != t.S {
		// remember what the named heap is a store of: a later load at the same reference reads the stored value
		if parts := splitArgs(t.S); len(parts) == 4 {
			if x.storeDefs == nil {
				x.storeDefs = map[string][3]string{}
			}
			x.storeDefs[named.S] = [3]string{parts[1], parts[2], parts[3]}
		}
	}
	st.Heap[region] = named
}

// selectObj: Select(h, ref), looking through the named stores h was built from when the reference is syntactically the
// stored one (constant propagation through locals: a struct written and read back in the same function).
func (x *Exec) selectObj(h, ref Term) Term {
	if d, ok := x.storeDefs[h.S]; ok && d[1] == ref.S {
		_, e := h.Sort.ArrayParts()
		return atomTerm(d[2], e)
	}
	return Select(h, ref)
}

// PtrFromTerm builds a PtrV from a Ref term of pointer type pt.
func (x *Exec) PtrFromTerm(t Term, pt types.Type) PtrV {
	elem := pt.Underlying().(*types.Pointer).Elem()
	if a, ok := elem.Underlying().(*types.Array); ok {
		r, _ := x.elemRegion(a.Elem())
		return PtrV{Region: r, RootT: a.Elem(), Base: t, Typ: pt}
	}
	r, _ := x.regionForElem(elem)
	return PtrV{Region: r, RootT: elem, Base: t, Typ: pt}
}

func (x *Exec) PtrTerm(p PtrV) (Term, error) {
	if len(p.Path) != 0 {
		return Term{}, fmt.Errorf("interior pointer escapes to a term (path len %d, type %s)", len(p.Path), p.Typ)
	}
	return p.Base, nil
}

// toTerm converts a value to a single term (pointers must be whole-object).
func (x *Exec) toTerm(v Val) (Term, error) {
	switch v := v.(type) {
	case TV:
		return v.T, nil
	case PtrV:
		return x.PtrTerm(v)
	case FuncV:
		if len(v.Bindings) != 0 {
			return Term{}, fmt.Errorf("closure with bindings stored as a value")
		}
		return x.FuncRefTerm(v.Fn), nil
	case nil:
		return Term{}, fmt.Errorf("nil Val")
	}
	return Term{}, fmt.Errorf("cannot convert %T to term", v)
}

func (x *Exec) FuncRefTerm(fn *ssa.Function) Term {
	k := fn.String()
	id, ok := x.C.funcIDs[k]
	if !ok {
		id = len(x.C.funcIDs) + 1
		x.C.funcIDs[k] = id
		x.C.funcByID[id] = fn
	}
	return BVInt(int64(id), 32)
}

// fromTerm wraps a term of Go type t as a Val (pointers become PtrV).
func (x *Exec) fromTerm(t Term, typ types.Type) Val {
	if _, ok := typ.Underlying().(*types.Pointer); ok {
		return x.PtrFromTerm(t, typ)
	}
	return TV{T: t, Typ: typ}
}

// pathTypes walks a path from root type and returns the final type.
func stepType(t types.Type, s Step) types.Type {
	switch u := t.Underlying().(type) {
	case *types.Struct:
		if !s.IsField {
			panic("index step on struct")
		}
		return u.Field(s.Field).Type()
	case *types.Array:
		if s.IsField {
			panic("field step on array")
		}
		return u.Elem()
	}
	panic(fmt.Sprintf("bad step on %s", t))
}

// readPath applies steps to a term of type t.
func (x *Exec) readPath(t Term, typ types.Type, path []Step) (Term, types.Type) {
	for _, s := range path {
		if s.IsField {
			si := x.C.StructInfo(typ)
			t = App(si.FSorts[s.Field], si.Fields[s.Field], t)
		} else {
			t = Select(t, s.Index)
		}
		typ = stepType(typ, s)
	}
	return t, typ
}

// writePath returns term `t` (of type typ) with the component at path replaced by v.
func (x *Exec) writePath(t Term, typ types.Type, path []Step, v Term) Term {
	if len(path) == 0 {
		return v
	}
	s := path[0]
	if s.IsField {
		si := x.C.StructInfo(typ)
		sub := App(si.FSorts[s.Field], si.Fields[s.Field], t)
		nsub := x.writePath(sub, stepType(typ, s), path[1:], v)
		args := make([]Term, len(si.Fields))
		for i := range si.Fields {
			if i == s.Field {
				args[i] = nsub
			} else {
				args[i] = App(si.FSorts[i], si.Fields[i], t)
			}
		}
		return App(si.Sort, si.Ctor, args...)
	}
	sub := Select(t, s.Index)
	nsub := x.writePath(sub, stepType(typ, s), path[1:], v)
	return Store(t, s.Index, nsub)
}

// Load reads through a pointer.
func (x *Exec) Load(st *State, p PtrV) (Val, error) {
	elemT := p.Typ.Underlying().(*types.Pointer).Elem()
	if strings.HasPrefix(p.Region, "E:") {
		_, hs := x.elemRegion(p.RootT)
		h := x.heapGet(st, p.Region, hs)
		arr := Select(h, p.Base)
		if init, ok := x.roInit[p.Base.S]; ok && p.Base.isConst && init.Sort == arr.Sort {
			arr = init
			if elems, ok := x.roElems[p.Base.S]; ok && len(p.Path) > 0 && !p.Path[0].IsField {
				if c, isConst := p.Path[0].Index.Const(); isConst {
					et, found := elems[c.Int64()]
					if !found {
						et = x.C.Zero(p.RootT)
					}
					et, _ = x.readPath(et, p.RootT, p.Path[1:])
					return x.fromLoaded(st, et, elemT), nil
				}
			}
		}
		if len(p.Path) == 0 {
			// whole array
			return x.fromLoaded(st, x.C.Name("ld", arr), elemT), nil
		}
		// first step must be index
		if p.Path[0].IsField {
			return nil, fmt.Errorf("field step at root of E region")
		}
		t := Select(arr, p.Path[0].Index)
		t, _ = x.readPath(t, p.RootT, p.Path[1:])
		return x.fromLoaded(st, x.C.Name("ld", t), elemT), nil
	}
	_, hs := x.regionForElem(p.RootT)
	var t Term
	if init, ok := x.roInit[p.Base.S]; ok && p.Base.isConst {
		t = init
		if elems, ok := x.roElems[p.Base.S]; ok && len(p.Path) > 0 && !p.Path[0].IsField {
			if c, isConst := p.Path[0].Index.Const(); isConst {
				if at, ok := p.RootT.Underlying().(*types.Array); ok {
					et, found := elems[c.Int64()]
					if !found {
						et = x.C.Zero(at.Elem())
					}
					et, _ = x.readPath(et, at.Elem(), p.Path[1:])
					return x.fromLoaded(st, et, elemT), nil
				}
			}
		}
	} else {
		h := x.heapGet(st, p.Region, hs)
		t = x.selectObj(h, p.Base)
	}
	t, _ = x.readPath(t, p.RootT, p.Path)
	return x.fromLoaded(st, x.C.Name("ld", t), elemT), nil
}

// fromLoaded wraps a loaded term and adds heap well-formedness assumptions for references.
func (x *Exec) fromLoaded(st *State, t Term, typ types.Type) Val {
	x.refAssume(st, t, typ)
	return x.fromTerm(t, typ)
}

// refAssume: every reference stored in the heap was allocated earlier (ref < brk).
func (x *Exec) refAssume(st *State, t Term, typ types.Type) {
	switch typ.Underlying().(type) {
	case *types.Pointer, *types.Map:
		x.C.Assume(bvCmp("bvult", t, st.Brk), "heap-wf: stored ref allocated before")
	case *types.Slice:
		base := App(SRef, "sl-base", t)
		x.C.Assume(And(bvCmp("bvult", base, st.Brk), x.sliceWF(t)), "heap-wf: slice header")
	}
}

// sliceWF: 0 <= len <= cap, off+cap does not wrap, sizes below 2^62 (Go's allocation limit implies far less).
func (x *Exec) sliceWF(s Term) Term {
	ln := App(SIdx, "sl-len", s)
	cp := App(SIdx, "sl-cap", s)
	off := App(SIdx, "sl-off", s)
	lim := BVUint(1<<40, 64)
	return And(bvCmp("bvule", ln, cp), bvCmp("bvule", cp, lim), bvCmp("bvule", off, lim),
		Implies(Eq(App(SRef, "sl-base", s), BVInt(0, 32)), Eq(cp, BVInt(0, 64))))
}

func (x *Exec) Store(st *State, p PtrV, v Val) error {
	if p.Snap {
		return fmt.Errorf("store through a snapshot slice of an interior array (unsupported)")
	}
	vt, err := x.toTerm(v)
	if err != nil {
		return err
	}
	if strings.HasPrefix(p.Region, "E:") {
		_, hs := x.elemRegion(p.RootT)
		h := x.heapGet(st, p.Region, hs)
		arr := Select(h, p.Base)
		var narr Term
		if len(p.Path) == 0 {
			narr = vt
		} else {
			el := Select(arr, p.Path[0].Index)
			nel := x.writePath(el, p.RootT, p.Path[1:], vt)
			narr = Store(arr, p.Path[0].Index, nel)
		}
		x.noteWrite(p.Base, p.Region)
		x.heapSet(st, p.Region, Store(h, p.Base, narr))
		return nil
	}
	_, hs := x.regionForElem(p.RootT)
	h := x.heapGet(st, p.Region, hs)
	obj := x.selectObj(h, p.Base)
	nobj := x.writePath(obj, p.RootT, p.Path, vt)
	x.noteWrite(p.Base, p.Region)
	x.heapSet(st, p.Region, Store(h, p.Base, nobj))
	return nil
}

// Alloc allocates a fresh object of type t (zero initialised) and returns the pointer.
func (x *Exec) Alloc(st *State, t types.Type, ptrT types.Type) PtrV {
	ref := st.Brk
	st.Brk = x.C.Name("brk", bvBin("bvadd", st.Brk, BVInt(1, 32)))
	x.C.Assume(bvCmp("bvult", ref, BVUint(0xfffffff0, 32)), "allocator does not exhaust 2^32 references")
	if ptrT == nil {
		ptrT = types.NewPointer(t)
	}
	p := x.PtrFromTerm(ref, ptrT)
	p.NonNil = true
	if a, ok := t.Underlying().(*types.Array); ok {
		_, hs := x.elemRegion(a.Elem())
		h := x.heapGet(st, p.Region, hs)
		x.heapSet(st, p.Region, Store(h, ref, x.C.Zero(t)))
		return p
	}
	_, hs := x.regionForElem(t)
	h := x.heapGet(st, p.Region, hs)
	x.heapSet(st, p.Region, Store(h, ref, x.C.Zero(t)))
	return p
}

// AllocBacking allocates a fresh backing array for slices with element type elem; contents = init (an Array Idx elem) or zero.
func (x *Exec) AllocBacking(st *State, elem types.Type, init *Term) Term {
	ref := st.Brk
	st.Brk = x.C.Name("brk", bvBin("bvadd", st.Brk, BVInt(1, 32)))
	x.C.Assume(bvCmp("bvult", ref, BVUint(0xfffffff0, 32)), "allocator does not exhaust 2^32 references")
	r, hs := x.elemRegion(elem)
	h := x.heapGet(st, r, hs)
	var content Term
	if init != nil {
		content = *init
	} else {
		es := x.C.SortOf(elem)
		content = ConstArray(SArr(SIdx, es), x.C.Zero(elem))
	}
	x.heapSet(st, r, Store(h, ref, content))
	return ref
}

func MkSlice(base, off, ln, cp Term) Term {
	return App(SSlice, "mk-slice", base, off, ln, cp)
}

func SlBase(s Term) Term { return fieldOfMk(s, 0, SRef, "sl-base") }
func SlOff(s Term) Term  { return fieldOfMk(s, 1, SIdx, "sl-off") }
func SlLen(s Term) Term  { return fieldOfMk(s, 2, SIdx, "sl-len") }
func SlCap(s Term) Term  { return fieldOfMk(s, 3, SIdx, "sl-cap") }

// fieldOfMk simplifies selector-of-constructor when the term is syntactically a constructor application.
func fieldOfMk(s Term, i int, srt Sort, sel string) Term {
	if strings.HasPrefix(s.S, "(mk-slice ") {
		parts := splitArgs(s.S)
		if len(parts) == 5 {
			return atomTerm(parts[i+1], srt)
		}
	}
	return App(srt, sel, s)
}

// splitArgs splits "(f a b (c d))" into ["f","a","b","(c d)"].
func splitArgs(s string) []string {
	s = s[1 : len(s)-1]
	var out []string
	depth := 0
	start := 0
	for i := 0; i < len(s); i++ {
		switch s[i] {
		case '(':
			depth++
		case ')':
			depth--
		case ' ':
			if depth == 0 {
				if i > start {
					out = append(out, s[start:i])
				}
				start = i + 1
			}
		}
	}
	if start < len(s) {
		out = append(out, s[start:])
	}
	return out
}

// merge two values under condition c (c ? a : b)
func (x *Exec) mergeVal(c Term, a, b Val) (Val, error) {
	switch av := a.(type) {
	case TV:
		bv, ok := b.(TV)
		if !ok {
			return nil, fmt.Errorf("merge TV with %T", b)
		}
		return TV{T: Ite(c, av.T, bv.T), Typ: av.Typ}, nil
	case PtrV:
		bv, ok := b.(PtrV)
		if !ok {
			return nil, fmt.Errorf("merge PtrV with %T", b)
		}
		if av.Region != bv.Region || len(av.Path) != len(bv.Path) {
			// nil pointers (Base 0, no path) can merge with anything of same region
			return nil, fmt.Errorf("merge pointers with different shapes (%s/%d vs %s/%d)", av.Region, len(av.Path), bv.Region, len(bv.Path))
		}
		out := PtrV{Region: av.Region, RootT: av.RootT, Base: Ite(c, av.Base, bv.Base), Typ: av.Typ, Snap: av.Snap || bv.Snap}
		for i := range av.Path {
			sa, sb := av.Path[i], bv.Path[i]
			if sa.IsField != sb.IsField || (sa.IsField && sa.Field != sb.Field) {
				return nil, fmt.Errorf("merge pointers with different paths")
			}
			if sa.IsField {
				out.Path = append(out.Path, sa)
			} else {
				out.Path = append(out.Path, Step{Index: Ite(c, sa.Index, sb.Index)})
			}
		}
		return out, nil
	case TupleV:
		bv, ok := b.(TupleV)
		if !ok || len(av) != len(bv) {
			return nil, fmt.Errorf("merge tuple mismatch")
		}
		out := make(TupleV, len(av))
		for i := range av {
			m, err := x.mergeVal(c, av[i], bv[i])
			if err != nil {
				return nil, err
			}
			out[i] = m
		}
		return out, nil
	case FuncV:
		bv, ok := b.(FuncV)
		if ok && bv.Fn == av.Fn && len(av.Bindings) == 0 && len(bv.Bindings) == 0 {
			return av, nil
		}
		ta, e1 := x.toTerm(a)
		tb, e2 := x.toTerm(b)
		if e1 == nil && e2 == nil {
			return TV{T: Ite(c, ta, tb), Typ: av.Fn.Signature}, nil
		}
		return nil, fmt.Errorf("merge of distinct closures")
	case *IterV:
		if bv, ok := b.(*IterV); ok && bv == av {
			return av, nil
		}
		return nil, fmt.Errorf("merge of iterators")
	case nil:
		if b == nil {
			return nil, nil
		}
	}
	return nil, fmt.Errorf("cannot merge %T with %T", a, b)
}

// mergeStates: merge n states (their PCs are mutually exclusive path conditions).
func (x *Exec) mergeStates(sts []*State) *State {
	if len(sts) == 1 {
		return sts[0].Clone()
	}
	out := &State{Heap: map[string]Term{}}
	var pcs []Term
	sameEpoch := true
	for _, s := range sts {
		pcs = append(pcs, s.PC)
		if s.Epoch != sts[0].Epoch {
			sameEpoch = false
		}
	}
	out.PC = x.C.Name("pc", Or(pcs...))
	if sameEpoch {
		out.Epoch = sts[0].Epoch
	} else {
		var parts []epochPart
		for _, s := range sts {
			parts = append(parts, epochPart{pc: s.PC, epoch: s.Epoch, heap: s.Heap})
		}
		out.Epoch = x.newEpoch(parts)
	}
	regions := map[string]bool{}
	for _, s := range sts {
		for r := range s.Heap {
			regions[r] = true
		}
	}
	var rs []string
	for r := range regions {
		rs = append(rs, r)
	}
	sort.Strings(rs)
	for _, r := range rs {
		var cur Term
		for i := len(sts) - 1; i >= 0; i-- {
			t, ok := sts[i].Heap[r]
			if !ok {
				t = x.heapDefault(sts[i].Epoch, r, x.regionSort[r])
			}
			if i == len(sts)-1 {
				cur = t
			} else {
				cur = Ite(sts[i].PC, t, cur)
			}
		}
		out.Heap[r] = x.C.Name("hm_"+r, cur)
	}
	cur := sts[len(sts)-1].Brk
	for i := len(sts) - 2; i >= 0; i-- {
		cur = Ite(sts[i].PC, sts[i].Brk, cur)
	}
	out.Brk = x.C.Name("brk", cur)
	return out
}
