package main

import (
	"fmt"
	"go/types"

	"golang.org/x/tools/go/ssa"
)

// Maps: region "MD:<K>:<V>" : Array Ref (Array KS Bool)   (domain)
//       region "MV:<K>:<V>" : Array Ref (Array KS VS)     (values)
//       region "ML:<K>:<V>" : Array Ref BV64              (len)
// Keys of array/struct type are packed into one bit-vector so that equality is Go's ==.

func (x *Exec) keyBits(t types.Type) (int, bool) {
	switch u := t.Underlying().(type) {
	case *types.Basic:
		if w, _ := intWidth(u); w > 0 {
			return w, true
		}
		if u.Kind() == types.Bool {
			return 1, true
		}
		return 0, false
	case *types.Array:
		w, ok := x.keyBits(u.Elem())
		if !ok || u.Len()*int64(w) > 4096 {
			return 0, false
		}
		return int(u.Len()) * w, true
	case *types.Struct:
		tot := 0
		for i := 0; i < u.NumFields(); i++ {
			w, ok := x.keyBits(u.Field(i).Type())
			if !ok {
				return 0, false
			}
			tot += w
		}
		return tot, tot > 0
	case *types.Pointer:
		return 32, true
	}
	return 0, false
}

func (x *Exec) keySort(t types.Type) (Sort, error) {
	switch t.Underlying().(type) {
	case *types.Array, *types.Struct:
		w, ok := x.keyBits(t)
		if !ok {
			return "", unsupported("map key type %s", t)
		}
		return SBV(w), nil
	}
	return x.C.SortOf(t), nil
}

// packKey converts a Go value term into the key representation.
func (x *Exec) packKey(t types.Type, v Term) (Term, error) {
	switch t.Underlying().(type) {
	case *types.Array, *types.Struct:
		if v.Sort.BVWidth() > 0 {
			return v, nil // already packed (bound key variable of allkeys)
		}
	}
	switch u := t.Underlying().(type) {
	case *types.Array:
		var cur *Term
		for i := int64(0); i < u.Len(); i++ {
			e, err := x.packKey(u.Elem(), Select(v, BVInt(i, 64)))
			if err != nil {
				return Term{}, err
			}
			if cur == nil {
				cur = &e
			} else {
				c := Concat(e, *cur) // element i more significant than earlier ones
				cur = &c
			}
		}
		if cur == nil {
			return Term{}, unsupported("empty array key")
		}
		return x.C.Name("key", *cur), nil
	case *types.Struct:
		si := x.C.StructInfo(t)
		var cur *Term
		for i := 0; i < u.NumFields(); i++ {
			e, err := x.packKey(u.Field(i).Type(), App(si.FSorts[i], si.Fields[i], v))
			if err != nil {
				return Term{}, err
			}
			if cur == nil {
				cur = &e
			} else {
				c := Concat(e, *cur)
				cur = &c
			}
		}
		return x.C.Name("key", *cur), nil
	case *types.Basic:
		if u.Kind() == types.Bool {
			return Ite(v, BVInt(1, 1), BVInt(0, 1)), nil
		}
	}
	return v, nil
}

// unpackKey is the inverse of packKey.
func (x *Exec) unpackKey(t types.Type, k Term) (Term, error) {
	switch u := t.Underlying().(type) {
	case *types.Array:
		w, _ := x.keyBits(u.Elem())
		es := x.C.SortOf(u.Elem())
		arr := ConstArray(SArr(SIdx, es), x.C.Zero(u.Elem()))
		for i := int64(0); i < u.Len(); i++ {
			part := Extract(int(i+1)*w-1, int(i)*w, k)
			e, err := x.unpackKey(u.Elem(), part)
			if err != nil {
				return Term{}, err
			}
			arr = Store(arr, BVInt(i, 64), e)
		}
		return x.C.Name("unkey", arr), nil
	case *types.Struct:
		si := x.C.StructInfo(t)
		off := 0
		var args []Term
		for i := 0; i < u.NumFields(); i++ {
			w, _ := x.keyBits(u.Field(i).Type())
			e, err := x.unpackKey(u.Field(i).Type(), Extract(off+w-1, off, k))
			if err != nil {
				return Term{}, err
			}
			args = append(args, e)
			off += w
		}
		return App(si.Sort, si.Ctor, args...), nil
	case *types.Basic:
		if u.Kind() == types.Bool {
			return Eq(k, BVInt(1, 1)), nil
		}
	}
	return k, nil
}

type mapRegions struct {
	D, V, L    string
	DS, VS, LS Sort
	KS, ES     Sort
	KT, VT     types.Type
}

func (x *Exec) mapRegions(mt types.Type) (*mapRegions, error) {
	m := mt.Underlying().(*types.Map)
	ks, err := x.keySort(m.Key())
	if err != nil {
		return nil, err
	}
	vs := x.C.SortOf(m.Elem())
	id := fmt.Sprintf("%s:%s", ks, vs)
	return &mapRegions{D: "MD:" + id, V: "MV:" + id, L: "ML:" + id,
		DS: SArr(SRef, SArr(ks, SBool)), VS: SArr(SRef, SArr(ks, vs)), LS: SArr(SRef, SIdx), KS: ks, ES: vs, KT: m.Key(), VT: m.Elem()}, nil
}

func (x *Exec) makeMap(fr *Frame, st *State, ins *ssa.MakeMap) error {
	mr, err := x.mapRegions(ins.Type())
	if err != nil {
		return err
	}
	if ins.Reserve != nil && x.allocBound != nil {
		// make(map, hint) pre-allocates buckets for `hint` entries (the runtime only ignores hints above 2^48 bytes)
		if rv, err := x.tv(fr, ins.Reserve); err == nil {
			if _, isConst := rv.T.Const(); !isConst {
				_, rs, _ := isInteger(ins.Reserve.Type())
				hint := Resize(rv.T, 64, rs)
				if rs {
					hint = Ite(bvCmp("bvslt", hint, BVInt(0, 64)), BVInt(0, 64), hint)
				}
				sizes := types.SizesFor("gc", "amd64")
				sz := sizes.Sizeof(mr.KT) + sizes.Sizeof(mr.VT) + 8
				small := bvCmp("bvule", hint, BVUint(1<<40, 64))
				prop, err := x.allocBoundProp(st, hint, sz)
				if err != nil {
					return err
				}
				x.obligation(fr, ins, "allocbound", st.PC, And(small, prop), fmt.Sprintf("bytes reserved by the map size hint (about %d per entry) exceed the declared bound %s", sz, x.allocBound.Text))
			}
		}
	}
	ref := st.Brk
	st.Brk = x.C.Name("brk", bvBin("bvadd", st.Brk, BVInt(1, 32)))
	x.C.Assume(bvCmp("bvult", ref, BVUint(0xfffffff0, 32)), "allocator does not exhaust 2^32 references")
	d := x.heapGet(st, mr.D, mr.DS)
	x.heapSet(st, mr.D, Store(d, ref, ConstArray(SArr(mr.KS, SBool), TFalse)))
	v := x.heapGet(st, mr.V, mr.VS)
	x.heapSet(st, mr.V, Store(v, ref, ConstArray(SArr(mr.KS, mr.ES), x.C.Zero(mr.VT))))
	l := x.heapGet(st, mr.L, mr.LS)
	x.heapSet(st, mr.L, Store(l, ref, BVInt(0, 64)))
	fr.Env[ins] = TV{T: ref, Typ: ins.Type()}
	return nil
}

// mapGet returns (value term, present term)
func (x *Exec) mapGet(st *State, mt types.Type, m Term, key Term) (Term, Term, error) {
	mr, err := x.mapRegions(mt)
	if err != nil {
		return Term{}, Term{}, err
	}
	k, err := x.packKey(mr.KT, key)
	if err != nil {
		return Term{}, Term{}, err
	}
	d := x.heapGet(st, mr.D, mr.DS)
	v := x.heapGet(st, mr.V, mr.VS)
	present := And(Not(Eq(m, BVInt(0, 32))), Select(Select(d, m), k))
	val := Ite(present, Select(Select(v, m), k), x.C.Zero(mr.VT))
	return val, present, nil
}

func (x *Exec) mapLen(st *State, mt types.Type, m Term) (Term, error) {
	mr, err := x.mapRegions(mt)
	if err != nil {
		return Term{}, err
	}
	l := x.heapGet(st, mr.L, mr.LS)
	ln := Ite(Eq(m, BVInt(0, 32)), BVInt(0, 64), Select(l, m))
	x.C.Assume(bvCmp("bvule", ln, BVUint(1<<40, 64)), "map length bound")
	return ln, nil
}

func (x *Exec) mapSet(st *State, mt types.Type, m Term, key Term, val Term) error {
	mr, err := x.mapRegions(mt)
	if err != nil {
		return err
	}
	k, err := x.packKey(mr.KT, key)
	if err != nil {
		return err
	}
	d := x.heapGet(st, mr.D, mr.DS)
	v := x.heapGet(st, mr.V, mr.VS)
	l := x.heapGet(st, mr.L, mr.LS)
	dm := Select(d, m)
	was := Select(dm, k)
	x.noteWrite(m, mr.L, mr.D, mr.V)
	x.heapSet(st, mr.L, Store(l, m, Ite(was, Select(l, m), bvBin("bvadd", Select(l, m), BVInt(1, 64)))))
	x.heapSet(st, mr.D, Store(d, m, Store(dm, k, TTrue)))
	x.heapSet(st, mr.V, Store(v, m, Store(Select(v, m), k, val)))
	return nil
}

func (x *Exec) mapDelete(st *State, mt types.Type, m Term, key Term) error {
	mr, err := x.mapRegions(mt)
	if err != nil {
		return err
	}
	k, err := x.packKey(mr.KT, key)
	if err != nil {
		return err
	}
	d := x.heapGet(st, mr.D, mr.DS)
	l := x.heapGet(st, mr.L, mr.LS)
	dm := Select(d, m)
	was := And(Not(Eq(m, BVInt(0, 32))), Select(dm, k))
	// delete on nil map is a no-op
	x.noteWrite(m, mr.L, mr.D)
	x.heapSet(st, mr.L, Ite(was, Store(l, m, bvBin("bvsub", Select(l, m), BVInt(1, 64))), l))
	x.heapSet(st, mr.D, Ite(was, Store(d, m, Store(dm, k, TFalse)), d))
	return nil
}

func (x *Exec) mapUpdate(fr *Frame, st *State, ins *ssa.MapUpdate) error {
	m, err := x.tv(fr, ins.Map)
	if err != nil {
		return err
	}
	k, err := x.tv(fr, ins.Key)
	if err != nil {
		return err
	}
	v, err := x.tv(fr, ins.Value)
	if err != nil {
		return err
	}
	x.obligation(fr, ins, "nil", st.PC, Not(Eq(m.T, BVInt(0, 32))), "assignment to entry in nil map")
	x.C.Assume(Implies(x.absPC(st.PC),Not(Eq(m.T, BVInt(0, 32)))), "continuing past nil-map check")
	return x.mapSet(st, ins.Map.Type(), m.T, k.T, v.T)
}

func (x *Exec) lookup(fr *Frame, st *State, ins *ssa.Lookup) error {
	if _, ok := ins.X.Type().Underlying().(*types.Map); !ok {
		// string index
		a, err := x.tv(fr, ins.X)
		if err != nil {
			return err
		}
		i, err := x.tv(fr, ins.Index)
		if err != nil {
			return err
		}
		_, sg, _ := isInteger(ins.Index.Type())
		idx := Resize(i.T, 64, sg)
		x.obligation(fr, ins, "idx", st.PC, bvCmp("bvult", idx, App(SIdx, "str_len", a.T)), "string index out of range")
		fr.Env[ins] = TV{T: x.C.Fresh("strbyte", SBV(8)), Typ: ins.Type()}
		return nil
	}
	m, err := x.tv(fr, ins.X)
	if err != nil {
		return err
	}
	k, err := x.tv(fr, ins.Index)
	if err != nil {
		return err
	}
	val, present, err := x.mapGet(st, ins.X.Type(), m.T, k.T)
	if err != nil {
		return err
	}
	vt := ins.X.Type().Underlying().(*types.Map).Elem()
	val = x.C.Name(ins.Name(), val)
	present = x.C.Name(ins.Name()+"ok", present)
	x.refAssume(st, val, vt)
	if ins.CommaOk {
		fr.Env[ins] = TupleV{x.fromTerm(val, vt), TV{T: present, Typ: types.Typ[types.Bool]}}
	} else {
		fr.Env[ins] = x.fromTerm(val, vt)
	}
	return nil
}

// ---- range over maps / strings: only supported under loop invariants (havoc) or when the loop exits immediately.

func (x *Exec) rangeInit(fr *Frame, st *State, ins *ssa.Range) error {
	v, err := x.valueOf(fr, ins.X)
	if err != nil {
		return err
	}
	switch u := ins.X.Type().Underlying().(type) {
	case *types.Map:
		mr, err := x.mapRegions(ins.X.Type())
		if err != nil {
			return err
		}
		fr.Env[ins] = &IterV{Map: v, KeyT: u.Key(), ValT: u.Elem(), Seen: ConstArray(SArr(mr.KS, SBool), TFalse)}
		return nil
	case *types.Basic:
		fr.Env[ins] = &IterV{Map: v, IsStr: true}
		return nil
	}
	return unsupported("range over %s", ins.X.Type())
}

func (x *Exec) rangeNext(fr *Frame, st *State, ins *ssa.Next) error {
	itv, err := x.valueOf(fr, ins.Iter)
	if err != nil {
		return err
	}
	it := itv.(*IterV)
	if it.IsStr {
		x.C.Note("range over string abstracted (arbitrary number of iterations, fresh runes)")
		ok := x.C.Fresh("strnext", SBool)
		fr.Env[ins] = TupleV{TV{T: ok, Typ: types.Typ[types.Bool]}, TV{T: x.C.Fresh("stri", SBV(64)), Typ: types.Typ[types.Int]}, TV{T: x.C.Fresh("strr", SBV(32)), Typ: types.Typ[types.Rune]}}
		return nil
	}
	m := it.Map.(TV)
	mr, err := x.mapRegions(m.Typ)
	if err != nil {
		return err
	}
	// An arbitrary not-yet-seen key of the *current* domain, or end of iteration.
	// (Go permits entries added during iteration to be visited or not; entries removed are not visited.)
	k := x.C.Fresh("rk", mr.KS)
	more := x.C.Fresh("rmore", SBool)
	d := x.heapGet(st, mr.D, mr.DS)
	v := x.heapGet(st, mr.V, mr.VS)
	inDom := And(Not(Eq(m.T, BVInt(0, 32))), Select(Select(d, m.T), k))
	x.C.Assume(Implies(more, And(inDom, Not(Select(it.Seen, k)))), "range yields an unseen key present in the map")
	it.Seen = x.C.Name("seen", Ite(more, Store(it.Seen, k, TTrue), it.Seen))
	kv, err := x.unpackKey(it.KeyT, k)
	if err != nil {
		return err
	}
	val := x.C.Name("rv", Select(Select(v, m.T), k))
	x.refAssume(st, val, it.ValT)
	fr.Env[ins] = TupleV{TV{T: more, Typ: types.Typ[types.Bool]}, x.fromTerm(kv, it.KeyT), x.fromTerm(val, it.ValT)}
	x.C.Note("range over map: iteration order and termination are arbitrary (each iteration yields an unseen present key or stops)")
	return nil
}
